"""C01 — relayed byte streams arrive exactly once, in order, unmodified.

ghost per connection object c:  wire = bytes the kernel accepted from c (E-SEND),
Q := wire + flat(buffer) (everything ever queued), rx = bytes received from c's peer (E-RECV).
Representation invariant: _num_buffer == len(buffer)."""
from pyvc.engine import LoopSpec
from . import common, handler, proxyplugin, C07

F = 'proxy/core/connection/connection.py'
SV = 'proxy/http/proxy/server.py'
EXPLANATION = ('buffer law proved for every interleaving of queue/flush with every short-write / would-block outcome '
               '(the outcomes are universally quantified inside flush); relay laws proved per handler step')
ASSUMPTIONS = ['user plugins return the chunk they were given (precondition of the property)',
               'connection pool disabled on the relay contracts (requires not flags.enable_conn_pool)']


def build(reg):
    T = C07.build(reg)          # handler tables + client-side flush/teardown contracts (also proved here)
    proxyplugin.add_proxy_plugin(reg, hooks='identity')
    INV = handler.CONN_INV
    # ---- the send buffer
    q = reg.contracts['TcpConnection.queue']
    q.ensures += [('wire', 'self.wire == old(self.wire)'),
                  ('stream', 'self.wire + flat(self.buffer) == old(self.wire) + flat(old(self.buffer)) + mv')]
    q.lemmas = ['flat(old(self.buffer) + [mv]) == flat(old(self.buffer)) + mv']
    T.append(q)
    hb = reg.contracts['TcpConnection.has_buffer']
    hb.ensures += [('frame', 'unchanged(self.buffer, self._num_buffer, self.wire)')]
    T.append(hb)
    fl = reg.contracts['TcpConnection.flush']
    fl.ensures += [
        ('result', '0 <= result and self.wire == old(self.wire) + old(self.buffer)[0][:result] '
                   'or (result == 0 and self.wire == old(self.wire))'),
        ('shape', 'len(old(self.buffer)) > 0 ==> ('
                  'self.buffer == old(self.buffer) or self.buffer == old(self.buffer)[1:] or '
                  'self.buffer == [old(self.buffer)[0][len(self.wire) - len(old(self.wire)):]] + old(self.buffer)[1:])'),
        ('progress', 'result > 0 ==> len(flat(self.buffer)) < len(flat(old(self.buffer)))')]
    T.append(fl)
    # ---- relay: upstream -> client
    from . import externs
    externs.add_strfuns(reg)
    PRE = proxyplugin.PP_PRE + [('no-pool', 'not self.flags.enable_conn_pool'), ('sendbuf', 'self.flags.max_sendbuf_size >= 0')]
    CM = ['self.client.buffer', 'self.client._num_buffer']
    DELTA = 'self.upstream.rx[len(old(self.upstream.rx)):]'
    UM = ['self.upstream.buffer', 'self.upstream._num_buffer', 'self.upstream.wire',
          'self.upstream.rx', 'self.upstream.dead']
    T.append(reg.contract(
        SV, 'HttpProxyPlugin.read_from_descriptors', params={'r': ('list', 'int')}, self_cls='HttpProxyPlugin',
        requires=PRE, result='bool',
        modifies=CM + UM + ['self.upstream', 'self.response.total_size', 'self.pipeline_response'] +
        ['self.response.' + f for f in proxyplugin.PARSER_FIELDS if f not in ('type', 'total_size')],
        raise_modifies=UM,
        prune=True,
        ensures=[('relay-exactly-once-in-order',
                  '(not isnone(old(self.upstream)) and not isnone(self.upstream)) ==> '
                  '((len(%s) > 0 and self.client.buffer == old(self.client.buffer) + [mv(%s)]) or '
                  ' (len(%s) == 0 and self.client.buffer == old(self.client.buffer)))' % (DELTA, DELTA, DELTA)),
                 ('client-wire-untouched', 'self.client.wire == old(self.client.wire)'),
                 ('client-repr', 'self.client._num_buffer == len(self.client.buffer)'),
                 ('nothing-else-queued', 'isnone(old(self.upstream)) ==> self.client.buffer == old(self.client.buffer)'),
                 ('upstream-untouched', '(not isnone(old(self.upstream)) and not isnone(self.upstream)) ==> '
                                        'unchanged(self.upstream.buffer, self.upstream.wire)')],
        raises={'TimeoutError': []},
        loops={0: LoopSpec(inv=[], modifies=['teardown']),
               1: LoopSpec(index='k', snapshot=['raw'], modifies=['raw'],
                           inv=['not isnone(raw)', 'raw == pre_raw'])}))
    T += more_relay_contracts(reg, PRE, CM, UM)
    return T


def more_relay_contracts(reg, PRE, CM, UM):
    """client -> upstream for tunnels / post-request bytes, the upstream flush, the plain tunnel
    handler, the reverse proxy's upstream handler."""
    T = []
    UB = 'self.upstream.buffer'
    HP = ('obj', 'HttpParser')
    reg.contract('<plugin>', 'ProxyBasePlugin.handle_client_request', params={'request': HP}, self_cls='ProxyBasePlugin',
                 assumed=True, modifies=[], result=('opt', HP), raises={'Exception': []})
    reg.contract(proxyplugin.PF, 'HttpParser.build', self_cls='HttpParser', assumed=True, result='bytes', modifies=[],
                 params={'disable_headers': ('opt', ('list', 'bytes')), 'for_proxy': 'bool', 'host': ('opt', 'bytes')},
                 raises={'AssertionError': []}, note='C02')
    reg.contract(proxyplugin.PF, 'HttpParser.del_headers', self_cls='HttpParser', params={'headers': ('list', 'bytes')},
                 assumed=True, modifies=['self.headers'], raises={}, note='C08')
    # --- HttpProxyPlugin.on_client_data, opaque tunnel: bytes go to the upstream as received
    T.append(reg.contract(
        SV, 'HttpProxyPlugin.on_client_data', self_cls='HttpProxyPlugin', params={'raw': 'mv'},
        requires=PRE + [('tunnel', 'not isnone(self.upstream) and not self.upstream.closed and self.request._is_https_tunnel'),
                        ('opaque', 'True')],
        modifies=[UB, 'self.upstream._num_buffer', 'self.pipeline_request'],
        ensures=[('tunnel-bytes-queued-as-received-or-intercepted',
                  '%s == old(%s) + [raw] or %s == old(%s) or len(%s) == len(old(%s)) + 1' % (UB, UB, UB, UB, UB, UB)),
                 ('upstream-repr', 'self.upstream._num_buffer == len(%s)' % UB),
                 ('client-untouched', 'unchanged(self.client.buffer, self.client.wire)')],
        raises={'Exception': []}, loops={0: LoopSpec(unroll=1), 1: LoopSpec(unroll=1)},
        note='with interception off (_tls_intercept_enabled False) exactly the first disjunct: see clause below'))
    reg.contracts['HttpProxyPlugin.on_client_data'].ensures.append(
        ('opaque-tunnel-relays-exactly', '(not tls_intercept) ==> %s == old(%s) + [raw]' % (UB, UB)))
    ti = reg.contracts['HttpProxyPlugin._tls_intercept_enabled']
    ti.ghost_init = {'tls_intercept': 'bool'}
    ti.ensures = [('recorded', 'result == tls_intercept')]
    reg.contracts['HttpProxyPlugin.on_client_data'].ghost_init = {'tls_intercept': 'bool'}
    # --- upstream flush on write readiness
    T.append(reg.contract(
        SV, 'HttpProxyPlugin.write_to_descriptors', self_cls='HttpProxyPlugin', params={'w': ('list', 'int')}, result='bool',
        requires=PRE, modifies=[UB, 'self.upstream._num_buffer', 'self.upstream.wire', 'self.upstream', 'self.upstream.dead'],
        ensures=[('upstream-stream-law', '(not isnone(self.upstream) and not isnone(old(self.upstream))) ==> '
                                         'self.upstream.wire + flat(%s) == old(self.upstream.wire) + flat(old(%s))' % (UB, UB)),
                 ('would-block-retries', '(not result and not isnone(self.upstream) and not isnone(old(self.upstream))) ==> '
                                         'self.upstream.dead == old(self.upstream.dead)'),
                 ('client-untouched', 'unchanged(self.client.buffer, self.client.wire)')],
        raises={}, loops={0: LoopSpec(inv=[], modifies=['teardown'])}))
    # --- plain TCP tunnel handler (BaseTcpTunnelHandler)
    TH = 'proxy/core/base/tcp_tunnel.py'
    H = dict(reg.classes['HttpProtocolHandler']['fields'])
    H['upstream'] = ('opt', ('obj', 'TcpServerConnection'))
    reg.klass('BaseTcpTunnelHandler', py='proxy.core.base.tcp_tunnel:BaseTcpTunnelHandler', fields=H)
    TS = 'proxy/core/base/tcp_server.py'
    WB = 'self.work.buffer'
    WSTREAM = 'self.work.wire + flat(%s) == old(self.work.wire) + flat(old(%s))' % (WB, WB)
    WREPR = 'self.work._num_buffer == len(%s)' % WB
    WMOD = [WB, 'self.work._num_buffer', 'self.work.wire', 'self.must_flush_before_shutdown']
    T.append(reg.contract(
        TS, 'BaseTcpServerHandler.handle_events', self_cls='BaseTcpTunnelHandler',
        params={'readables': ('list', 'int'), 'writables': ('list', 'int')}, result='bool',
        requires=handler.HANDLER_PRE, alias=handler.HANDLER_ALIAS, modifies=WMOD + ['self.work.dead'],
        raise_modifies=WMOD + ['self.work.dead'],
        ensures=[('client-repr', WREPR)],
        raises={'Exception': [('client-repr', WREPR)]},
        note='client side of the tunnel handler, composed from the C07 contracts of handle_writables/handle_readables; '
             'handle_data is the abstract hook (assumed to keep the representation invariant only)'))
    UDELTA = 'self.upstream.rx[len(old(self.upstream.rx)):]'
    T.append(reg.contract(
        TH, 'BaseTcpTunnelHandler.handle_events', self_cls='BaseTcpTunnelHandler',
        params={'readables': ('list', 'int'), 'writables': ('list', 'int')}, result='bool',
        requires=handler.HANDLER_PRE + [('upstream-inv', 'isnone(self.upstream) or (self.upstream._num_buffer == len(self.upstream.buffer) '
                                                         'and not isnone(self.upstream._conn))')],
        alias=handler.HANDLER_ALIAS,
        modifies=[WB, 'self.work._num_buffer', 'self.work.wire', 'self.must_flush_before_shutdown', 'self.work.dead',
                  'self.upstream.buffer', 'self.upstream._num_buffer', 'self.upstream.wire', 'self.upstream.rx', 'self.upstream.dead'],
        raise_modifies=[WB, 'self.work._num_buffer', 'self.work.wire', 'self.work.dead', 'self.must_flush_before_shutdown', 'self.upstream.rx', 'self.upstream.dead',
                        'self.upstream.buffer', 'self.upstream._num_buffer', 'self.upstream.wire'],
        ensures=[('upstream-stream-law', 'isnone(self.upstream) or self.upstream.wire + flat(self.upstream.buffer) == '
                                         'old(self.upstream.wire) + flat(old(self.upstream.buffer))'),
                 ('downstream-relay-exactly',
                  '(not isnone(self.upstream) and len(%s) > 0) ==> (len(%s) > 0 and %s[len(%s) - 1] == mv(%s))' % (UDELTA, WB, WB, WB, UDELTA)),
                 ('reprs', 'self.work._num_buffer == len(%s) and (isnone(self.upstream) or self.upstream._num_buffer == len(self.upstream.buffer))' % WB)],
        raises={'Exception': [('client-repr', 'self.work._num_buffer == len(%s)' % WB)]}))
    # --- reverse proxy / upstream handler mixin
    TU = 'proxy/core/base/tcp_upstream.py'
    reg.klass('ReverseProxy', py='proxy.http.server.reverse:ReverseProxy', fields={
        'client': ('obj', 'HttpClientConnection'), 'upstream': ('opt', ('obj', 'TcpServerConnection')),
        'server_recvbuf_size': 'int', 'total_size': 'int'})
    CB = 'self.client.buffer'
    DELTA = 'self.upstream.rx[len(old(self.upstream.rx)):]'
    T.append(reg.contract(
        'proxy/http/server/reverse.py', 'ReverseProxy.handle_upstream_data', self_cls='ReverseProxy', params={'raw': 'mv'},
        requires=[('client-inv', 'self.client._num_buffer == len(%s)' % CB)], modifies=[CB, 'self.client._num_buffer'],
        ensures=[('relayed-unmodified', '%s == old(%s) + [raw]' % (CB, CB))], raises={}))
    T.append(reg.contract(
        TU, 'TcpUpstreamConnectionHandler.read_from_descriptors', self_cls='ReverseProxy', params={'r': ('list', 'int')}, result='bool',
        requires=[('client-inv', 'self.client._num_buffer == len(%s)' % CB),
                  ('upstream-conn', 'isnone(self.upstream) or not isnone(self.upstream._conn)')],
        modifies=[CB, 'self.client._num_buffer', 'self.upstream.rx', 'self.upstream.dead', 'self.total_size'],
        raise_modifies=['self.upstream.rx', 'self.upstream.dead'],
        ensures=[('relay-exactly-once-in-order',
                  '(not isnone(self.upstream)) ==> ((len(%s) > 0 and %s == old(%s) + [mv(%s)]) or (len(%s) == 0 and %s == old(%s)))' % (
                      DELTA, CB, CB, DELTA, DELTA, CB, CB)),
                 ('nothing-without-upstream', 'isnone(self.upstream) ==> %s == old(%s)' % (CB, CB))],
        raises={'OSError': []}))
    T.append(reg.contract(
        TU, 'TcpUpstreamConnectionHandler.write_to_descriptors', self_cls='ReverseProxy', params={'w': ('list', 'int')}, result='bool',
        requires=[('upstream-inv', 'isnone(self.upstream) or (self.upstream._num_buffer == len(self.upstream.buffer) and not isnone(self.upstream._conn))')],
        modifies=['self.upstream.buffer', 'self.upstream._num_buffer', 'self.upstream.wire', 'self.upstream.dead'],
        raise_modifies=['self.upstream.dead'],
        ensures=[('upstream-stream-law', 'isnone(self.upstream) or self.upstream.wire + flat(self.upstream.buffer) == '
                                         'old(self.upstream.wire) + flat(old(self.upstream.buffer))')],
        raises={'OSError': [('unchanged', 'isnone(self.upstream) or unchanged(self.upstream.buffer, self.upstream.wire)')]}))
    return T


def lemmas(reg, ex):
    from pyvc import lemma
    return lemma.induction_on_seq(ex, 'C01', 'flat_snoc', {'s': ('seq', 'mv'), 'x': 'mv'},
                                  'flat(s + [x]) == flat(s) + x', on='s',
                                  hints=['(s + [x])[1:] == s[1:] + [x]', '(s + [x])[0] == s[0]'])


def replay(ob, reg):
    from pyvc import replay as R
    c = reg.contracts.get(ob.func)
    if c is None or not ob.func.startswith('TcpConnection.'):
        return {'reproduced': False, 'replay': 'no factory for %s' % ob.func}
    return R.run_case(R.case_from_obl(ob, c, 'tcpconn'))

