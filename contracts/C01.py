"""C01 — relayed byte streams arrive exactly once, in order, unmodified."""
from pyvc.engine import LoopSpec
from . import common

F = 'proxy/core/connection/connection.py'
INV = [('num', 'self._num_buffer == len(self.buffer)'),
       ('repr', 'self.wire + flat(self.buffer) == self.Q')]


def build(reg):
    common.add_flat(reg)
    common.add_tcp_connection(reg)
    targets = []
    targets.append(reg.contract(
        F, 'TcpConnection.queue', params={'mv': 'mv'}, self_cls='TcpConnection', inv=INV[:1],
        modifies=['self.buffer', 'self._num_buffer'],
        ensures=[('append', 'self.buffer == old(self.buffer) + [mv]'),
                 ('wire', 'self.wire == old(self.wire)'),
                 ('stream', 'self.wire + flat(self.buffer) == old(self.wire) + flat(old(self.buffer)) + mv')],
        lemmas=['flat(old(self.buffer) + [mv]) == flat(old(self.buffer)) + mv'],
        note='lemma flat_snoc is proved by induction (lemmas/flat_snoc)'))
    targets.append(reg.contract(
        F, 'TcpConnection.has_buffer', self_cls='TcpConnection', inv=INV[:1], modifies=[], result='bool',
        ensures=[('iff', 'result == (len(self.buffer) != 0)'), ('frame', 'unchanged(self.buffer, self._num_buffer, self.wire)')]))
    targets.append(reg.contract(
        F, 'TcpConnection.flush', params={'max_send_size': ('opt', 'int')}, self_cls='TcpConnection', inv=INV[:1],
        result='int', modifies=['self.buffer', 'self._num_buffer', 'self.wire'],
        requires=[('max', 'isnone(max_send_size) or max_send_size >= 0')],
        ensures=[
            ('stream', 'self.wire + flat(self.buffer) == old(self.wire) + flat(old(self.buffer))'),
            ('empty', 'len(old(self.buffer)) == 0 ==> (result == 0 and unchanged(self.buffer, self.wire))'),
            ('result', '0 <= result and self.wire == old(self.wire) + old(self.buffer)[0][:result] '
                       'or (result == 0 and self.wire == old(self.wire))'),
            ('shape', 'len(old(self.buffer)) > 0 ==> ('
                      'self.buffer == old(self.buffer) or '
                      'self.buffer == old(self.buffer)[1:] or '
                      'self.buffer == [old(self.buffer)[0][len(self.wire) - len(old(self.wire)):]] + old(self.buffer)[1:])'),
            ('prefix', 'self.wire[:len(old(self.wire))] == old(self.wire)'),
            ('progress', 'result > 0 ==> len(flat(self.buffer)) < len(flat(old(self.buffer)))'),
        ],
        raises={'OSError': [('unchanged', 'unchanged(self.buffer, self._num_buffer, self.wire)')]}))
    return targets


def lemmas(reg, ex):
    from pyvc import lemma
    return lemma.induction_on_seq(ex, 'C01', 'flat_snoc', {'s': ('seq', 'mv'), 'x': 'mv'},
                                  'flat(s + [x]) == flat(s) + x', on='s',
                                  hints=['(s + [x])[1:] == s[1:] + [x]', '(s + [x])[0] == s[0]'])


def replay(ob, reg):
    from pyvc import replay as R
    c = reg.contracts.get(ob.func)
    if c is None or not ob.func.startswith('TcpConnection.'):
        return {'reproduced': False, 'replay': 'no factory for %s' % ob.func}
    return R.run_case(R.case_from_obl(ob, c, 'tcpconn'))
