"""C01 — relayed byte streams arrive exactly once, in order, unmodified.

ghost per connection object c:  wire = bytes the kernel accepted from c (E-SEND),
Q := wire + flat(buffer) (everything ever queued), rx = bytes received from c's peer (E-RECV).
Representation invariant: _num_buffer == len(buffer)."""
from pyvc.engine import LoopSpec
from . import common, handler, proxyplugin, C07

F = 'proxy/core/connection/connection.py'
SV = 'proxy/http/proxy/server.py'
EXPLANATION = ('buffer law proved for every interleaving of queue/flush with every short-write / would-block outcome '
               '(the outcomes are universally quantified inside flush); relay laws proved per handler step')
ASSUMPTIONS = ['user plugins return the chunk they were given (precondition of the property)',
               'connection pool disabled on the relay contracts (requires not flags.enable_conn_pool)']


def build(reg):
    T = C07.build(reg)          # handler tables + client-side flush/teardown contracts (also proved here)
    proxyplugin.add_proxy_plugin(reg, hooks='identity')
    INV = handler.CONN_INV
    # ---- the send buffer
    q = reg.contracts['TcpConnection.queue']
    q.ensures += [('wire', 'self.wire == old(self.wire)'),
                  ('stream', 'self.wire + flat(self.buffer) == old(self.wire) + flat(old(self.buffer)) + mv')]
    q.lemmas = ['flat(old(self.buffer) + [mv]) == flat(old(self.buffer)) + mv']
    T.append(q)
    hb = reg.contracts['TcpConnection.has_buffer']
    hb.ensures += [('frame', 'unchanged(self.buffer, self._num_buffer, self.wire)')]
    T.append(hb)
    fl = reg.contracts['TcpConnection.flush']
    fl.ensures += [
        ('result', '0 <= result and self.wire == old(self.wire) + old(self.buffer)[0][:result] '
                   'or (result == 0 and self.wire == old(self.wire))'),
        ('shape', 'len(old(self.buffer)) > 0 ==> ('
                  'self.buffer == old(self.buffer) or self.buffer == old(self.buffer)[1:] or '
                  'self.buffer == [old(self.buffer)[0][len(self.wire) - len(old(self.wire)):]] + old(self.buffer)[1:])'),
        ('progress', 'result > 0 ==> len(flat(self.buffer)) < len(flat(old(self.buffer)))')]
    T.append(fl)
    # ---- relay: upstream -> client
    PRE = proxyplugin.PP_PRE + [('no-pool', 'not self.flags.enable_conn_pool')]
    CM = ['self.client.buffer', 'self.client._num_buffer']
    DELTA = 'self.upstream.rx[len(old(self.upstream.rx)):]'
    UM = ['self.upstream.buffer', 'self.upstream._num_buffer', 'self.upstream.wire',
          'self.upstream.rx', 'self.upstream.dead']
    T.append(reg.contract(
        SV, 'HttpProxyPlugin.read_from_descriptors', params={'r': ('list', 'int')}, self_cls='HttpProxyPlugin',
        requires=PRE, result='bool',
        modifies=CM + UM + ['self.upstream', 'self.response.total_size', 'self.pipeline_response'] +
        ['self.response.' + f for f in proxyplugin.PARSER_FIELDS if f not in ('type', 'total_size')],
        raise_modifies=UM,
        prune=True,
        ensures=[('relay-exactly-once-in-order',
                  '(not isnone(old(self.upstream)) and not isnone(self.upstream)) ==> '
                  '((len(%s) > 0 and self.client.buffer == old(self.client.buffer) + [mv(%s)]) or '
                  ' (len(%s) == 0 and self.client.buffer == old(self.client.buffer)))' % (DELTA, DELTA, DELTA)),
                 ('client-wire-untouched', 'self.client.wire == old(self.client.wire)'),
                 ('client-repr', 'self.client._num_buffer == len(self.client.buffer)'),
                 ('nothing-else-queued', 'isnone(old(self.upstream)) ==> self.client.buffer == old(self.client.buffer)'),
                 ('upstream-untouched', '(not isnone(old(self.upstream)) and not isnone(self.upstream)) ==> '
                                        'unchanged(self.upstream.buffer, self.upstream.wire)')],
        raises={'TimeoutError': []},
        loops={0: LoopSpec(inv=[], modifies=['teardown']),
               1: LoopSpec(index='k', snapshot=['raw'], modifies=['raw'],
                           inv=['not isnone(raw)', 'raw == pre_raw'])}))
    return T


def lemmas(reg, ex):
    from pyvc import lemma
    return lemma.induction_on_seq(ex, 'C01', 'flat_snoc', {'s': ('seq', 'mv'), 'x': 'mv'},
                                  'flat(s + [x]) == flat(s) + x', on='s',
                                  hints=['(s + [x])[1:] == s[1:] + [x]', '(s + [x])[0] == s[0]'])


def replay(ob, reg):
    from pyvc import replay as R
    c = reg.contracts.get(ob.func)
    if c is None or not ob.func.startswith('TcpConnection.'):
        return {'reproduced': False, 'replay': 'no factory for %s' % ob.func}
    return R.run_case(R.case_from_obl(ob, c, 'tcpconn'))
