"""C02 — the forwarded HTTP request is semantically identical to the client's.

Deductive part (shared contracts, re-proved here): first-request path of
HttpProxyPlugin.on_request_complete — hop-by-hop fields removed, Via added, operator-disabled
fields not emitted; follow-up path of on_client_data (C04) — same scrub; re-chunking of bodies
incl. the empty chunked body (HttpParser._get_body_or_chunks, C15); chunk decoder steps (C03).
HttpParser.build itself uses a dict comprehension (outside the accepted subset): its
field-emission contract is ASSUMED in the proofs and exercised by the bounded end-to-end sweep:
the real handler + proxy plugin, a recording upstream, a request family x segmentations x
position on the connection, the forwarded bytes parsed by an independent parser."""
from . import C08, C04, C15, proxyplugin

SV = 'proxy/http/proxy/server.py'
EXPLANATION = 'scrub / Via / re-chunking clauses proved on the real functions; equality of whole forwarded requests is a bounded native sweep'
ASSUMPTIONS = ['HttpParser.build: dict comprehension is outside the accepted subset; its contract (a field is emitted iff present and not disabled) is assumed and swept natively',
               'open known finding F18: no Via on follow-up requests (carved out of the sweep)']


def build(reg):
    c15 = C15.build(reg)
    T4 = C04.build(reg)         # builds C08's tables and contracts as well
    b = reg.contracts['HttpParser.build']
    b.ensures = b.ensures + [('instance-via', "(not isnone(self.headers) and self.headers.has(b'via') and "
                                             "not (not isnone(disable_headers) and contains(disable_headers, b'via'))) ==> has_field(result, b'via')")]
    orc = reg.contracts['HttpProxyPlugin.on_request_complete']
    LAST = 'self.upstream.buffer[len(self.upstream.buffer) - 1]'
    orc.ensures = orc.ensures + [
        ('via-added', "(not isnone(self.upstream) and len(self.upstream.buffer) > 0 and "
                      "not contains(self.flags.disable_headers, b'via')) ==> has_field(%s, b'via')" % LAST),
        ('proxy-connection-removed', "(not isnone(self.upstream) and len(self.upstream.buffer) > 0) ==> "
                                     "not has_field(%s, b'proxy-connection')" % LAST)]
    T = [orc, reg.contracts['HttpParser.del_header'], reg.contracts['HttpParser.del_headers']]
    T += [c for c in T4 if c.qualname == 'HttpProxyPlugin.on_client_data']
    T += [c for c in c15 if c.qualname in ('HttpParser._get_body_or_chunks', 'ChunkParser.process', 'build_http_request', 'build_http_pkt')]
    return T


def build_emission_sweep(tier, seed):
    """HttpParser.build() is used through an assumed field-emission contract by C02 / C08 / C12 (its dict
    comprehension is outside the engine's subset).  Bounded check of that contract on the real function:
    parsed requests with varied field-name spellings x --disable-headers subsets x host= argument; the header
    fields the upstream would see (split independently of proxy.py's parser) must be exactly the client's,
    minus the disabled ones, with the Host value replaced exactly once when host= is given, and the body framing
    field kept single."""
    import itertools
    import random
    from proxy.http.parser import HttpParser
    rnd = random.Random(seed + 77)
    bad, n = [], 0
    names = [(b'Host', b'host', b'HOST'), (b'X-A', b'x-a'), (b'Accept', b'ACCEPT'), (b'Proxy-Connection', b'proxy-connection'),
             (b'Content-Length', b'content-length', b'CONTENT-LENGTH'), (b'Transfer-Encoding', b'transfer-encoding')]
    for _ in range(300 if tier == 'quick' else 3000):
        body = rnd.choice([b'', b'abc', b'x' * 40])
        chunked = rnd.random() < 0.3
        fields = [(rnd.choice(names[0]), b'front.example')]
        for grp in names[1:4]:
            if rnd.random() < 0.6:
                fields.append((rnd.choice(grp), rnd.choice([b'1', b'v w', b'keep-alive'])))
        if chunked:
            fields.append((rnd.choice(names[5]), b'chunked'))
            wire_body = b''.join(b'%x\r\n%s\r\n' % (len(body[i:i + 7]), body[i:i + 7]) for i in range(0, len(body), 7)) + b'0\r\n\r\n'
        else:
            if body:
                fields.append((rnd.choice(names[4]), b'%d' % len(body)))
            wire_body = body
        rnd.shuffle(fields)
        raw = b'POST /p?q=1 HTTP/1.1\r\n' + b''.join(k + b': ' + v + b'\r\n' for k, v in fields) + b'\r\n' + wire_body
        p = HttpParser.request(raw)
        if not p.is_complete:
            bad.append({'what': 'generated request does not parse to completion', 'request': raw[:120].decode('latin-1')})
            continue
        disabled = rnd.choice([None, [], [b'x-a'], [b'accept', b'proxy-connection'], [b'host']])
        host = rnd.choice([None, None, b'up.example', b'up.example:8080'])
        out = p.build(disable_headers=disabled, host=host)
        n += 1
        head = out.split(b'\r\n\r\n', 1)[0].split(b'\r\n')
        got = sorted((l.split(b': ', 1)[0], l.split(b': ', 1)[1] if b': ' in l else b'') for l in head[1:])
        dis = set(disabled if disabled is not None else [b'proxy-connection'] if False else (disabled or []))
        if disabled is None:
            from proxy.common.constants import DEFAULT_DISABLE_HEADERS
            dis = set(DEFAULT_DISABLE_HEADERS)
        want = sorted((k, (host if (host is not None and k.lower() == b'host') else v)) for k, v in fields if k.lower() not in dis)
        case = {'request_fields': repr(fields)[:200], 'disable_headers': repr(disabled), 'host_argument': repr(host)}
        if head[0] != b'POST /p?q=1 HTTP/1.1':
            bad.append(dict(case, what='request line %r' % head[0]))
        elif got != want:
            bad.append(dict(case, what='emitted fields differ from the client\'s', emitted=repr(got)[:300], expected=repr(want)[:300]))
    return {'name': 'HttpParser.build() field emission vs the client\'s fields (the assumed contract of C02/C08/C12, checked on the real function)',
            'bounded': True, 'bound': '%d random parsed requests (field-name spellings x framing x --disable-headers x host=)' % (300 if tier == 'quick' else 3000),
            'cases': n, 'violations': bad[:3]}


def bounded_checks(reg, tier, seed):
    import itertools
    from unittest import mock
    from proxy.common.flag import FlagParser
    from proxy.http.handler import HttpProtocolHandler
    from proxy.http.connection import HttpClientConnection
    from proxy.http.parser import ChunkParser
    import proxy.http.proxy.server as srv

    def ref_parse(raw):
        """independent request parser: (method, target, version, [(name, value)], decoded body)"""
        head, _, rest = raw.partition(b'\r\n\r\n')
        lines = head.split(b'\r\n')
        m, t, v = lines[0].split(b' ', 2)
        hs = [(l.split(b':', 1)[0].strip(), l.split(b':', 1)[1].strip()) for l in lines[1:]]
        d = {k.lower(): x for k, x in hs}
        if d.get(b'transfer-encoding', b'').lower() == b'chunked':
            body, i = b'', 0
            while True:
                j = rest.index(b'\r\n', i)
                size = int(rest[i:j].split(b';')[0], 16)
                i = j + 2
                if size == 0:
                    break
                body += rest[i:i + size]
                i += size + 2
        else:
            body = rest[:int(d.get(b'content-length', b'0'))]
        return m, t, v, hs, body

    def requests():
        bodies = [b'', b'hello', bytes(range(200))]
        out = []
        for meth, body, chunked, lower in itertools.product((b'GET', b'POST', b'PUT'), bodies, (False, True), (False, True)):
            if meth == b'GET' and (body or chunked or lower):
                continue
            if lower and meth == b'PUT':
                continue
            sp = (lambda x: x.lower()) if lower else (lambda x: x)      # field names are case-insensitive
            hs = [(b'Host', b'h.example:8080'), (b'X-Mixed-Case', b'a  b'), (b'accept', b'*/*'),
                  (b'Proxy-Connection', b'keep-alive'), (b'Proxy-Authorization', b'Basic dTpw'), (b'X-Drop-Me', b'1')]
            if chunked:
                hs.append((sp(b'Transfer-Encoding'), b'chunked'))
                wire_body = ChunkParser.to_chunks(body, 7)
            else:
                if body:
                    hs.append((sp(b'Content-Length'), b'%d' % len(body)))
                wire_body = body
            raw = meth + b' http://h.example:8080/p/a?x=1 HTTP/1.1\r\n' + b''.join(k + b': ' + v + b'\r\n' for k, v in hs) + b'\r\n' + wire_body
            out.append((raw, meth, hs, body, chunked))
        return out
    flags = FlagParser.initialize(threaded=False, disable_headers=[b'x-drop-me'])
    bad = []
    n = 0
    for (raw, meth, hs, body, chunked), position in itertools.product(requests(), ('first', 'later')):
        cuts = [()] + [(c,) for c in range(1, len(raw), max(1, len(raw) // 23))]
        if tier != 'quick':
            cuts += [(a, b) for a in range(1, len(raw), len(raw) // 7 + 1) for b in range(a + 1, len(raw), len(raw) // 5 + 1)]
        for cut in cuts:
            sent = []

            class FakeUp(object):
                def __init__(self, host, port):
                    self.addr, self.closed, self.buffer = (host, port), True, []

                def connect(self, addr=None, source_address=None):
                    self.closed = False
                    self.connection = mock.MagicMock()

                def queue(self, mv):
                    sent.append(bytes(mv))

                def has_buffer(self):
                    return False
            sock = mock.MagicMock()
            sock.fileno.return_value = 11
            h = HttpProtocolHandler(HttpClientConnection(sock, ('127.0.0.1', 9)), flags=flags)
            with mock.patch.object(srv, 'TcpServerConnection', FakeUp):
                try:
                    if position == 'later':
                        h.handle_data(memoryview(b'GET http://h.example:8080/first HTTP/1.1\r\nHost: h.example:8080\r\n\r\n'))
                        sent.clear()
                    idx = [0] + list(cut) + [len(raw)]
                    for a, b in zip(idx, idx[1:]):
                        h.handle_data(memoryview(raw[a:b]))
                except Exception as e:      # noqa
                    bad.append({'request': raw[:50].decode('latin-1'), 'position': position, 'cuts': list(cut), 'what': 'raised %r' % (e,)})
                    continue
            n += 1
            case = {'request': raw[:60].decode('latin-1'), 'position': position, 'cuts': list(cut)}
            if len(sent) != 1:
                bad.append(dict(case, what='%d requests reached the origin' % len(sent)))
                continue
            try:
                m, t, v, fh, fb = ref_parse(sent[0])
            except Exception as e:      # noqa
                bad.append(dict(case, what='forwarded bytes do not parse: %r' % (e,), forwarded=sent[0][:100].decode('latin-1')))
                continue
            keep = [(k, x) for k, x in hs if k.lower() not in (b'proxy-connection', b'proxy-authorization', b'x-drop-me')]
            got = [(k, x) for k, x in fh if k.lower() != b'via']
            via = [x for k, x in fh if k.lower() == b'via']
            if (m, t, v) != (meth, b'/p/a?x=1', b'HTTP/1.1') or fb != body:
                bad.append(dict(case, what='method / target / version / body changed', got=repr((m, t, v, fb[:20]))))
            elif sorted((k.lower(), x) for k, x in got) != sorted((k.lower(), x) for k, x in keep) or \
                    sorted(k for k, _ in got) != sorted(k for k, _ in keep):
                bad.append(dict(case, what='header fields changed', got=repr(got)[:200]))
            elif position == 'first' and len(via) != 1:        # follow-ups: open known finding F18
                bad.append(dict(case, what='Via fields: %r' % (via,)))
            if len(bad) > 10:
                break
    return [{'name': 'native end-to-end sweep: forwarded request vs client request (independent parser)', 'bounded': True,
             'bound': 'request family (methods x bodies x framing) x first/later position x 1- and 2-piece segmentations'
                      + ('' if tier == 'quick' else ' x sampled 3-piece'),
             'cases': n, 'violations': bad[:3]}, build_emission_sweep(tier, seed)]


CROSSCHECK = ['HttpParser.del_header', 'HttpParser.del_headers', 'build_http_request', 'build_http_pkt', 'HttpParser._get_body_or_chunks']


def crosscheck_gens(reg):
    from . import C03
    return C03.crosscheck_gens(reg)


def lemmas(reg, ex):
    from . import C06
    return C06.lemmas(reg, ex, prop='C02')
