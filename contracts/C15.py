"""C15 — HTTP message and chunked codecs round-trip and agree with a reference.

Deductive part (shared with C03 / C06, re-proved here): the chunk decoder's step contracts, the
packet builders against the RFC 7230 serialisation spec, the Content-Length framing rule, and
HttpParser._get_body_or_chunks (a chunked message with an EMPTY body is re-encoded as the
terminating chunk).  Round trips of whole messages (parse(build(x)) == x, build(parse(y)) parses
to the same, decode(encode(b)) == b for every chunk size, agreement with a reference decoder)
are a BOUNDED native sweep over a generated family — labelled bounded, not proved."""
from pyvc.engine import LoopSpec
from . import externs, proxyplugin, C03, C06

PF = 'proxy/http/parser/parser.py'
CH = 'proxy/http/parser/chunk.py'
EXPLANATION = 'step contracts and builder specs are proved for all inputs; whole-message round trips are a bounded native sweep'
ASSUMPTIONS = ['whole-message round trips: bounded native sweep (family x chunk sizes 1..n), not proved',
               'E-CODEC: gzip.decompress(gzip.compress(x)) == x']


def build(reg):
    T6 = [c for c in C06.build(reg) if c.qualname.startswith('build_http')]
    T = C03.build(reg)          # after C06: the parser class table and the verified parse() contract of C03 are the ones in force
    T += T6
    reg.contract(CH, 'ChunkParser.to_chunks', params={'raw': 'bytes', 'chunk_size': 'int'}, result='bytes', assumed=True,
                 modifies=[], ensures=[('terminated', "result.endswith(b'0\\r\\n\\r\\n')"),
                                       ('empty', "len(raw) == 0 ==> result == b'0\\r\\n\\r\\n'")], raises={},
                 note='the encoder itself: bounded sweep (its loop steps by a symbolic chunk size)')
    T.append(reg.contract(
        PF, 'HttpParser._get_body_or_chunks', self_cls='HttpParser', result=('opt', 'bytes'), modifies=[],
        ensures=[('plain-body-as-is', 'not self._is_chunked_encoded ==> result == self.body'),
                 ('chunked-body-is-terminated', "(self._is_chunked_encoded and not isnone(self.body)) ==> "
                                                "(not isnone(result) and result.endswith(b'0\\r\\n\\r\\n'))"),
                 ('empty-chunked-body-is-the-last-chunk', "(self._is_chunked_encoded and not isnone(self.body) and len(self.body) == 0) ==> "
                                                          "result == b'0\\r\\n\\r\\n'")],
        raises={}))
    return T


def bounded_checks(reg, tier, seed):
    import gzip
    import random
    from proxy.http.parser import ChunkParser, chunkParserStates, HttpParser, httpParserTypes
    from proxy.common.utils import build_http_request, build_http_response
    from . import parser_sweep
    rnd = random.Random(seed)
    bad = []
    n = 0

    def ref_decode(stream):
        # independent reference decoder (RFC 7230 4.1: extensions ignored, trailers skipped)
        body, i = b'', 0
        while True:
            j = stream.index(b'\r\n', i)
            size = int(stream[i:j].split(b';')[0].strip(), 16)
            i = j + 2
            if size == 0:
                while True:
                    j = stream.index(b'\r\n', i)
                    line, i = stream[i:j], j + 2
                    if line == b'':
                        return body, stream[i:]
            body += stream[i:i + size]
            i += size + 2
    bodies = [b'', b'x', b'\r\n', b'0\r\n\r\n', bytes(range(256)), bytes(rnd.randrange(256) for _ in range(700))]
    for b in bodies:
        for size in [1, 2, 3, 7, 16, 255, 256, 1024] + ([5, 100, 699, 700, 701] if tier != 'quick' else []):
            enc = ChunkParser.to_chunks(b, size)
            p = ChunkParser()
            rest = p.parse(memoryview(enc + b'TAIL'))
            n += 1
            rb, rr = ref_decode(enc + b'TAIL')
            if p.state != chunkParserStates.COMPLETE or p.body != b or bytes(rest) != b'TAIL' or rb != b or rr != b'TAIL':
                bad.append({'what': 'decode(encode(body)) != body or disagrees with the reference decoder',
                            'body_len': len(b), 'chunk_size': size, 'decoded_len': len(p.body)})
    heads = [{}, {b'Host': b'h.com'}, {b'Host': b'h.com', b'X-A': b'1', b'x-b': b' 2'.strip()}]
    for hs in heads:
        for body in (None, b'', b'abc', bytes(range(256))):
            for meth, url in ((b'GET', b'/'), (b'POST', b'http://h.com/a?b=c'), (b'CONNECT', b'h.com:443')):
                raw = build_http_request(meth, url, headers=dict(hs), body=body, no_ua=True)
                p = HttpParser.request(raw)
                n += 1
                want_h = dict(hs)
                if body:
                    want_h[b'Content-Length'] = b'%d' % len(body)
                got_h = {v[0]: v[1] for v in (p.headers or {}).values()}
                if not p.is_complete or p.method != meth or (p.body or b'') != (body or b'') or got_h != want_h:
                    bad.append({'what': 'parse(build_http_request(x)) != x', 'method': meth.decode(), 'headers': repr(hs), 'body_len': len(body or b'')})
                    continue
                if meth != b'CONNECT':
                    again = HttpParser.request(p.build())
                    if not again.is_complete or again.method != meth or (again.body or b'') != (body or b'') or \
                            {v[0]: v[1] for v in (again.headers or {}).values()} != got_h:
                        bad.append({'what': 'build(parse(y)) does not parse to the same request', 'method': meth.decode(), 'headers': repr(hs)})
            for code, reason in ((200, b'OK'), (404, None), (101, b'Switching Protocols')):
                raw = build_http_response(code, reason=reason, headers=dict(hs), body=body)
                p = HttpParser.response(raw)
                n += 1
                if not p.is_complete or p.code != b'%d' % code or (p.body or b'') != (body or b'') or p.reason != reason:
                    bad.append({'what': 'parse(build_http_response(x)) != x', 'code': code, 'headers': repr(hs), 'body_len': len(body or b'')})
                    continue
                again = HttpParser.response(p.build_response())
                if not again.is_complete or again.code != p.code or (again.body or b'') != (body or b''):
                    bad.append({'what': 'build_response(parse(y)) does not parse to the same response', 'code': code})
    for body in (b'', b'q', bytes(range(256)) * 3):
        for te in (False, True):
            wire = (b'POST /u HTTP/1.1\r\nHost: h\r\n' + (b'Transfer-Encoding: chunked\r\n\r\n' + ChunkParser.to_chunks(body, 50) if te
                    else b'Content-Length: %d\r\n\r\n' % len(body) + body))
            p = HttpParser.request(wire)
            n += 1
            rebuilt = HttpParser.request(p.build())
            if not rebuilt.is_complete or (rebuilt.body or b'') != body or rebuilt.is_chunked_encoded != te:
                bad.append({'what': 'rebuild of a parsed request changes it', 'chunked': te, 'body_len': len(body)})
            for enc in (None, b'gzip'):
                q = HttpParser.request(wire.replace(b'Host: h\r\n', b'Host: h\r\n' + (b'Content-Encoding: gzip\r\n' if enc else b'')))
                q.update_body(b'NEW BODY', b'text/plain')
                r = HttpParser.request(q.build())
                n += 1
                dec = gzip.decompress(r.body) if enc else r.body
                if not r.is_complete or dec != b'NEW BODY' or r.is_chunked_encoded != te:
                    bad.append({'what': 'update_body + rebuild does not yield the new body', 'chunked': te, 'gzip': bool(enc)})
    # header names are case-insensitive: every spelling of the two framing fields must survive a rebuild
    # as exactly one framing field, and the rebuilt message must decode to the same body
    def names(raw):
        head = raw.split(b'\r\n\r\n', 1)[0].split(b'\r\n')[1:]
        return sorted(l.split(b':', 1)[0].lower() for l in head)
    for spell_te, spell_cl in ((b'Transfer-Encoding', b'Content-Length'), (b'transfer-encoding', b'content-length'),
                               (b'TRANSFER-ENCODING', b'CONTENT-LENGTH'), (b'Transfer-encoding', b'Content-length')):
        for body in (b'', b'hello', bytes(range(256))):
            for te in (False, True):
                framing = (spell_te + b': chunked\r\n\r\n' + ChunkParser.to_chunks(body, 100)) if te else \
                    (spell_cl + b': %d\r\n\r\n' % len(body) + body)
                for kind, start in (('request', b'POST /u HTTP/1.1\r\nHost: h\r\n'), ('response', b'HTTP/1.1 200 OK\r\nServer: s\r\n')):
                    wire = start + framing
                    p = HttpParser.request(wire) if kind == 'request' else HttpParser.response(wire)
                    out = p.build() if kind == 'request' else p.build_response()
                    n += 1
                    q = HttpParser.request(out) if kind == 'request' else HttpParser.response(out)
                    want = names(wire)
                    if names(out) != want or not q.is_complete or (q.body or b'') != body or q.is_chunked_encoded != te:
                        bad.append({'what': 'rebuild of a parsed %s changes its header fields or body' % kind, 'chunked': te,
                                    'spelling': (spell_te if te else spell_cl).decode(), 'body_len': len(body),
                                    'fields_in': repr(want), 'fields_out': repr(names(out))})
                for builder in ('build_http_request', 'build_http_response'):
                    hs = {spell_te: b'chunked'} if te else {spell_cl: b'%d' % len(body)}
                    payload = ChunkParser.to_chunks(body, 100) if te else body
                    out = build_http_request(b'POST', b'/', headers=dict(hs), body=payload, no_ua=True) if builder == 'build_http_request' \
                        else build_http_response(200, reason=b'OK', headers=dict(hs), body=payload)
                    n += 1
                    fr = [x for x in names(out) if x in (b'content-length', b'transfer-encoding')]
                    if fr != ([b'transfer-encoding'] if te else [b'content-length']) and not (builder == 'build_http_request' and not te and not body):
                        bad.append({'what': '%s emits framing fields %r for headers %r' % (builder, fr, hs), 'body_len': len(body)})
    return [{'name': 'native codec round trips (chunk encode/decode vs reference, parse(build), build(parse), update_body)',
             'bounded': True, 'bound': '%d bodies x chunk sizes, 3 header maps x 4 bodies x 3 methods / 3 status codes' % len(bodies),
             'cases': n, 'violations': bad[:3]}, parser_sweep.sweep(tier, seed)]


CROSSCHECK = C03.CROSSCHECK + C06.CROSSCHECK + ['HttpParser._get_body_or_chunks']


def crosscheck_gens(reg):
    from . import C03
    return C03.crosscheck_gens(reg)


def lemmas(reg, ex):
    from . import C06
    return C06.lemmas(reg, ex, prop='C15')
