"""Shared sidecar tables for the client-connection handlers
(BaseTcpServerHandler / HttpProtocolHandler) — used by C01, C07, C20, C06."""
import z3
from pyvc.engine import SpecFun
from . import common, externs

WOULD_BLOCK = ['BlockingIOError', 'ssl.SSLWantWriteError', 'ssl.SSLWantReadError']
FATAL = ['BrokenPipeError', 'ConnectionResetError', 'TimeoutError', 'OSError']

CONN_FIELDS = {'buffer': ('list', 'mv'), '_num_buffer': 'int', 'closed': 'bool', '_reusable': 'bool', 'tag': 'str',
               '_conn': ('opt', ('opaque', 'Socket'))}
CONN_GHOST = {'wire': 'bytes', 'dead': 'bool', 'rx': 'bytes'}
CONN_INV = [('num', 'self._num_buffer == len(self.buffer)')]


def add_connections(reg):
    common.add_flat(reg)
    reg.specfuns['sockfd'] = SpecFun('sockfd', [('opaque', 'Socket')], 'int')
    for name, py in (('TcpConnection', 'proxy.core.connection.connection:TcpConnection'),
                     ('TcpClientConnection', 'proxy.core.connection.client:TcpClientConnection'),
                     ('TcpServerConnection', 'proxy.core.connection.server:TcpServerConnection'),
                     ('HttpClientConnection', 'proxy.http.connection:HttpClientConnection')):
        f = dict(CONN_FIELDS)
        if name != 'TcpConnection':
            f['addr'] = ('opaque', 'Addr')
        reg.klass(name, py=py, fields=f, ghost=dict(CONN_GHOST))
    reg.contract('<env>', 'Socket.fileno', self_cls='Socket', assumed=True, result='int', modifies=[],
                 ensures=['result == sockfd(self)'], note='a socket object has one descriptor number')
    # E-SEND at the socket: would-block class leaves the connection usable, every other OSError means the
    # peer can no longer receive (ghost dead := True)
    reg.contract('proxy/core/connection/connection.py', 'TcpConnection.send', params={'data': 'mv'}, result='int',
                 assumed=True, self_cls='TcpConnection', modifies=['self.wire'], raise_modifies=['self.dead'],
                 ensures=[('range', '0 <= result and result <= len(data)'),
                          ('wire', 'self.wire == old(self.wire) + data[:result]')],
                 raises=dict([(e, ['self.dead == old(self.dead)']) for e in WOULD_BLOCK] +
                             [(e, ['self.dead']) for e in FATAL]),
                 note='E-SEND')
    reg.contract('proxy/core/connection/connection.py', 'TcpConnection.recv', params={'buffer_size': 'int'},
                 result=('opt', 'mv'), assumed=True, self_cls='TcpConnection', modifies=['self.rx'], raise_modifies=['self.dead'],
                 ensures=[('nonempty', 'isnone(result) or len(result) > 0'),
                          ('rx', "self.rx == old(self.rx) + (b'' if isnone(result) else result)")],
                 raises=dict([(e, ['self.dead == old(self.dead)']) for e in ['ssl.SSLWantReadError', 'BlockingIOError']] +
                             [(e, ['self.dead']) for e in FATAL]),
                 note='E-RECV: None at EOF, else the next 1..k bytes of the peer stream')
    reg.assumptions += ['E-SEND: sock.send(d) accepts a prefix d[:n] (0<=n<=len(d)) or raises having sent nothing; '
                        'BlockingIOError/SSLWantWrite/SSLWantRead leave the connection usable, any other OSError means the peer is gone',
                        'E-RECV: sock.recv returns b"" at EOF else 1..k bytes, or raises an OSError subclass']
    # the verified contract of flush, for callers (proved under C01)
    reg.contract(
        'proxy/core/connection/connection.py', 'TcpConnection.flush', params={'max_send_size': ('opt', 'int')},
        self_cls='TcpConnection', inv=CONN_INV, result='int',
        modifies=['self.buffer', 'self._num_buffer', 'self.wire'], raise_modifies=['self.dead'],
        requires=[('max', 'isnone(max_send_size) or max_send_size >= 0')],
        ensures=[('stream', 'self.wire + flat(self.buffer) == old(self.wire) + flat(old(self.buffer))'),
                 ('empty', 'len(old(self.buffer)) == 0 ==> (result == 0 and unchanged(self.buffer, self.wire))'),
                 ('shrinks', 'len(self.buffer) <= len(old(self.buffer))'),
                 ('dead', 'self.dead == old(self.dead)'),
                 ('prefix', 'self.wire[:len(old(self.wire))] == old(self.wire)')],
        raises={'ssl.SSLWantWriteError': ['unchanged(self.buffer, self._num_buffer, self.wire, self.dead)'],
                'ssl.SSLWantReadError': ['unchanged(self.buffer, self._num_buffer, self.wire, self.dead)'],
                'OSError': ['unchanged(self.buffer, self._num_buffer, self.wire)', 'self.dead']})
    reg.contract('proxy/core/connection/connection.py', 'TcpConnection.has_buffer', self_cls='TcpConnection',
                 inv=CONN_INV, modifies=[], result='bool', ensures=[('iff', 'result == (len(self.buffer) != 0)')])
    reg.contract('proxy/core/connection/connection.py', 'TcpConnection.queue', params={'mv': 'mv'},
                 self_cls='TcpConnection', inv=CONN_INV, modifies=['self.buffer', 'self._num_buffer'],
                 ensures=[('append', 'self.buffer == old(self.buffer) + [mv]')])


FLAGS = {'max_sendbuf_size': 'int', 'client_recvbuf_size': 'int', 'server_recvbuf_size': 'int', 'timeout': 'int',
         'threadless': 'bool', 'keyfile': ('opt', 'str'), 'certfile': ('opt', 'str'),
         'enable_proxy_protocol': 'bool'}

PLUGIN_MOD = ['self.client.buffer', 'self.client._num_buffer']
PLUGIN_POST = [('num', 'self.client._num_buffer == len(self.client.buffer)'),
               ('appends-only', 'self.client.buffer[:len(old(self.client.buffer))] == old(self.client.buffer)')]


def add_handler(reg):
    if getattr(reg, '_handler_tables', False):
        return          # idempotent: several property modules share these tables
    reg._handler_tables = True
    externs.add_misc(reg)
    add_connections(reg)
    fl = dict(FLAGS)
    fl.update(reg.classes.get('Flags', {}).get('fields', {}))
    reg.klass('Flags', py=None, fields=fl)
    # the protocol plugin is adversarial: it may queue output for the client and return/raise anything
    reg.klass('ProtoPlugin', py=None, fields={'client': ('obj', 'HttpClientConnection')})
    for m, params, res in (('write_to_descriptors', {'w': ('list', 'int')}, 'bool'),
                           ('read_from_descriptors', {'r': ('list', 'int')}, 'bool'),
                           ('on_client_data', {'raw': 'mv'}, None),
                           ('on_client_connection_close', {}, None)):
        reg.contract('<plugin>', 'ProtoPlugin.' + m, params=params, result=res, self_cls='ProtoPlugin', assumed=True,
                     modifies=PLUGIN_MOD, raise_modifies=PLUGIN_MOD, ensures=PLUGIN_POST,
                     raises={'Exception': PLUGIN_POST},
                     note='adversarial protocol plugin: any result, any exception, may queue output for the client')
    reg.contract('<plugin>', 'ProtoPlugin.on_response_chunk', params={'chunk': ('list', 'mv')}, result=('list', 'mv'),
                 self_cls='ProtoPlugin', assumed=True, modifies=[], raises={},
                 note='property precondition: plugins do not alter the queued chunks')
    reg.contract('<plugin>', 'ProtoPlugin.get_descriptors', self_cls='ProtoPlugin', assumed=True, modifies=[],
                 result=('tuple', ('list', 'int'), ('list', 'int')), raises={'Exception': []})
    H = {'work': ('obj', 'HttpClientConnection'), 'flags': ('obj', 'Flags'), 'must_flush_before_shutdown': 'bool',
         'plugin': ('opt', ('obj', 'ProtoPlugin')), 'writes_teared': 'bool', 'reads_teared': 'bool',
         'last_activity': 'int', 'start_time': 'int', 'selector': ('opt', ('opaque', 'Selector')),
         'request': ('opaque', 'HttpParser')}
    reg.klass('HttpProtocolHandler', py='proxy.http.handler:HttpProtocolHandler', fields=H)
    reg.klass('BaseTcpServerHandler', py='proxy.core.base.tcp_server:BaseTcpServerHandler', fields=H)
    reg.assumptions.append('time is modelled as a mathematical integer clock (E-TIME); only order comparisons are used')


HANDLER_PRE = [('conn', 'not isnone(self.work._conn)'),
               ('work-inv', 'self.work._num_buffer == len(self.work.buffer)'),
               ('sendbuf', 'self.flags.max_sendbuf_size >= 0')]
HANDLER_ALIAS = {'self.plugin.client': 'self.work'}
