"""C20 — idle connections are reaped after the timeout and active ones never are.

ghost now = the value of the (first) time.time() call made by the function under contract."""
from pyvc.engine import LoopSpec
from . import handler, C07

HH = 'proxy/http/handler.py'
FD = 'sockfd(self.work._conn)'
ASSUMPTIONS = ['E-TIME: time.time() is non-decreasing; time is a mathematical number',
               'bounded delay is proved in event-loop iterations, not seconds (Threadless._run_forever tick logic is covered under C05)']


def build(reg):
    C07.build(reg)      # handler tables + the contracts of the handlers it calls
    PRE, AL = handler.HANDLER_PRE, handler.HANDLER_ALIAS
    T = []
    T.append(reg.contract(
        HH, 'HttpProtocolHandler._connection_inactive_for', self_cls='HttpProtocolHandler', requires=PRE, alias=AL,
        result='int', modifies=[], ensures=[('elapsed', 'result == now - self.last_activity')], raises={}))
    T.append(reg.contract(
        HH, 'HttpProtocolHandler.is_inactive', self_cls='HttpProtocolHandler', requires=PRE, alias=AL, result='bool',
        modifies=[],
        ensures=[('never-with-output-pending', 'len(self.work.buffer) > 0 ==> not result'),
                 ('never-while-recently-active', 'now - self.last_activity <= self.flags.timeout ==> not result'),
                 ('reaped-when-idle', '(len(self.work.buffer) == 0 and now - self.last_activity > self.flags.timeout) ==> result')],
        raises={}))
    # activity stamps: client readiness that is acted upon refreshes last_activity, nothing else does
    for meth, arg, cond in (('handle_readables', 'readables', 'contains(readables, %s)' % FD),
                            ('handle_writables', 'writables', '(contains(writables, %s) and len(old(self.work.buffer)) > 0)' % FD)):
        c = reg.contracts['HttpProtocolHandler.' + meth]
        c.ensures += [('activity-stamped', '%s ==> self.last_activity == now' % cond),
                      ('activity-only-on-client-io', 'not %s ==> self.last_activity == old(self.last_activity)' % cond)]
        if 'Exception' in c.raises:
            c.raises['Exception'] += [('activity-stamped', '%s ==> self.last_activity == now' % cond)]
        T.append(c)
    return T
