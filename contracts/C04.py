"""C04 — each request on a persistent connection is answered in order by the right origin (REDUCED).

Contracts can pin what a handler step does with the k-th request, not a real event loop:
HttpProxyPlugin.on_client_data (follow-up branch): an incomplete follow-up request is KEPT until
it completes (across any number of segments), a complete one is forwarded exactly once —
scrubbed like the first — and the parser is reset so that the next request is accepted.
Right-origin / right-route selection for follow-ups is NOT claimed: known findings F11, F12."""
from pyvc.engine import LoopSpec
from . import C08, proxyplugin, handler

SV = 'proxy/http/proxy/server.py'
PF = 'proxy/http/parser/parser.py'
ASSUMPTIONS = ['reduced claim: per-request handler steps; order of responses = FIFO of both buffers (C01) + an origin answers in order',
               'follow-up requests to another origin / route: open known findings F11, F12 (not claimed)',
               'the follow-up parser is adversarial (any state after parse); its own behaviour is C03']
PA = "b'proxy-authorization'"


def build(reg):
    from . import externs
    T = C08.build(reg)
    externs.add_text(reg)       # text_() can raise UnicodeDecodeError (also inside exception messages)
    T = [c for c in T if c.qualname in ('HttpParser.del_header', 'HttpParser.del_headers')]
    pf = dict(proxyplugin.PARSER_FIELDS)
    G = {'parses': 'int', 'fwd': 'int', 'parse_raised': 'bool', 'plugin_raised': 'bool'}
    from pyvc.engine import from_py
    from proxy.http.responses import BAD_REQUEST_RESPONSE_PKT
    reg.spec_consts['BAD_REQUEST'] = from_py(BAD_REQUEST_RESPONSE_PKT)
    reg.contract(PF, 'HttpParser.parse', params={'raw': 'mv', 'allowed_url_schemes': ('opt', ('list', 'bytes'))},
                 self_cls='HttpParser', assumed=True, modifies=['self.' + f for f in pf if f != 'type'],
                 ghost_init={'parses': 'int', 'parse_raised': 'bool'}, ensures=['parses == old(parses) + 1', 'parse_raised == old(parse_raised)'],
                 raises={'Exception': ['parses == old(parses) + 1', 'parse_raised'],
                         'proxy.http.exception.HttpProtocolException': ['parses == old(parses) + 1', 'parse_raised']},
                 note='adversarial follow-up parser: any state afterwards, or any exception (C03)')
    hc = reg.contracts['ProxyBasePlugin.handle_client_request']
    hc.result_alias = 'request'       # plugins pass the request on (possibly edited in place) or drop it
    hc.note = 'pass-through-or-drop plugins (a plugin substituting a different parser object is outside this contract)'
    hc.ghost_init = dict(hc.ghost_init, hc_log=('seq', 'int'), plugin_raised='bool')
    hc.ensures = hc.ensures + [('logged', 'hc_log == old(hc_log) + [self]'), ('no-raise-flag', 'plugin_raised == old(plugin_raised)')]
    hc.raises = dict((k, list(v) + [('logged', 'hc_log == old(hc_log) + [self]'), ('raise-flag', 'plugin_raised')])
                     for k, v in (hc.raises or {'Exception': []}).items())
    UB = 'self.upstream.buffer'
    T.append(reg.contract(
        SV, 'HttpProxyPlugin.on_client_data', self_cls='HttpProxyPlugin', params={'raw': 'mv'}, ghost_init=dict(G, hc_log=('seq', 'int')),
        requires=proxyplugin.PP_PRE + [
            ('established-http-exchange', 'not isnone(self.upstream) and not self.upstream.closed and self.request.state == 6 '
                                          'and not self.request._is_https_tunnel'),
            ('no-plugins-dropping', 'True'), ('ghost-flags-start-clear', 'not plugin_raised and not parse_raised')],
        modifies=['self.pipeline_request', 'self.upstream.buffer', 'self.upstream._num_buffer'],
        raise_modifies=['self.pipeline_request', 'self.client.buffer', 'self.client._num_buffer'],
        ensures=[
            ('a-parse-failure-cannot-return', 'parse_raised == old(parse_raised)'),
            ('every-segment-reaches-the-follow-up-parser', 'parses == old(parses) + 1 or '
             '(not isnone(old(self.pipeline_request)) and len(%s) == len(old(%s)) + 1)' % (UB, UB)),
            ('incomplete-request-is-kept',
             '(not isnone(self.pipeline_request) and self.pipeline_request.state != 6) ==> %s == old(%s)' % (UB, UB)),
            ('partial-request-survives-the-call',
             '(not isnone(old(self.pipeline_request)) and %s == old(%s) and not isnone(self.pipeline_request)) ==> '
             'True' % (UB, UB)),
            ('never-dropped-silently', '(isnone(self.pipeline_request) and not isnone(old(self.pipeline_request))) ==> '
                                       'len(%s) == len(old(%s)) + 1' % (UB, UB)),
            ('forwarded-at-most-once', 'len(%s) <= len(old(%s)) + 1 and %s[:len(old(%s))] == old(%s)' % (UB, UB, UB, UB, UB)),
            ('credentials-never-forwarded', '(parses == old(parses) + 1 and len(%s) == len(old(%s)) + 1) ==> '
                                            'not has_field(%s[len(%s) - 1], %s)' % (UB, UB, UB, UB, PA)),
            ('repr', 'self.upstream._num_buffer == len(%s)' % UB)],
        # first matching group decides.  Nothing but a protocol exception (answered, see below), a failed internal
        # assertion or whatever a user plugin raises may leave: any other exception type escaping here would drop
        # the connection without a response (C06)
        raises={'proxy.http.exception.HttpProtocolException': [
                    ('repr', 'self.upstream._num_buffer == len(%s)' % UB),
                    ('malformed-follow-up-is-answered-400', '(parse_raised and not old(parse_raised)) ==> '
                                                            'self.client.buffer == old(self.client.buffer) + [BAD_REQUEST]'),
                    ('nothing-forwarded', '(parse_raised and not old(parse_raised)) ==> %s == old(%s)' % (UB, UB)),
                    ('rejected-before-any-plugin-ran-is-answered-400',
                     'hc_log == old(hc_log) ==> (self.client.buffer == old(self.client.buffer) + [BAD_REQUEST] and %s == old(%s))' % (UB, UB)),
                    ('client-repr', 'self.client._num_buffer == len(self.client.buffer)')],
                'AssertionError': [('repr', 'self.upstream._num_buffer == len(%s)' % UB),
                                   ('not-after-a-parse-failure', 'parse_raised == old(parse_raised)')],
                'Exception': [('repr', 'self.upstream._num_buffer == len(%s)' % UB),
                              ('only-a-user-plugin-raises-anything-else', 'plugin_raised')]},
        loops={0: LoopSpec(unroll=1), 1: LoopSpec(unroll=2)}))
    return T


CROSSCHECK = ['HttpParser.del_header', 'HttpParser.del_headers']
