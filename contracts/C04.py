"""C04 — each request on a persistent connection is answered in order by the right origin (REDUCED).

Contracts can pin what a handler step does with the k-th request, not a real event loop:
HttpProxyPlugin.on_client_data (follow-up branch): an incomplete follow-up request is KEPT until
it completes (across any number of segments), a complete one is forwarded exactly once —
scrubbed like the first — and the parser is reset so that the next request is accepted.
Right-origin / right-route selection for follow-ups is NOT claimed: known findings F11, F12."""
from pyvc.engine import LoopSpec
from . import C08, proxyplugin, handler

SV = 'proxy/http/proxy/server.py'
PF = 'proxy/http/parser/parser.py'
ASSUMPTIONS = ['reduced claim: per-request handler steps; order of responses = FIFO of both buffers (C01) + an origin answers in order',
               'follow-up requests to another origin / route: open known findings F11, F12 (not claimed)',
               'the follow-up parser is adversarial (any state after parse); its own behaviour is C03']
PA = "b'proxy-authorization'"


def build(reg):
    from . import externs
    T = C08.build(reg)
    externs.add_text(reg)       # text_() can raise UnicodeDecodeError (also inside exception messages)
    T = [c for c in T if c.qualname in ('HttpParser.del_header', 'HttpParser.del_headers')]
    pf = dict(proxyplugin.PARSER_FIELDS)
    G = {'parses': 'int', 'fwd': 'int', 'parse_raised': 'bool', 'plugin_raised': 'bool', 'cur_req': 'int'}
    from pyvc.engine import from_py
    from proxy.http.responses import BAD_REQUEST_RESPONSE_PKT
    reg.spec_consts['BAD_REQUEST'] = from_py(BAD_REQUEST_RESPONSE_PKT)
    reg.contract(PF, 'HttpParser.parse', params={'raw': 'mv', 'allowed_url_schemes': ('opt', ('list', 'bytes'))},
                 self_cls='HttpParser', assumed=True, modifies=['self.' + f for f in pf if f != 'type'],
                 ghost_init={'parses': 'int', 'parse_raised': 'bool', 'cur_req': 'int'},
                 ensures=['parses == old(parses) + 1', 'parse_raised == old(parse_raised)',
                          ('the-parsed-request-is-what-the-plugin-chain-starts-with', 'cur_req == evid(self)')],
                 raises={'Exception': ['parses == old(parses) + 1', 'parse_raised'],
                         'proxy.http.exception.HttpProtocolException': ['parses == old(parses) + 1', 'parse_raised']},
                 note='adversarial follow-up parser: any state afterwards, or any exception (C03)')
    hc = reg.contracts['ProxyBasePlugin.handle_client_request']
    hc.note = 'a plugin may edit the request in place, return a different parser object, or drop it (None)'
    hc.ghost_init = dict(hc.ghost_init, hc_log=('seq', 'int'), plugin_raised='bool')
    hc.ensures = hc.ensures + [('logged', 'hc_log == old(hc_log) + [self]'), ('no-raise-flag', 'plugin_raised == old(plugin_raised)')]
    hc.raises = dict((k, list(v) + [('logged', 'hc_log == old(hc_log) + [self]'), ('raise-flag', 'plugin_raised')])
                     for k, v in (hc.raises or {'Exception': []}).items())
    UB = 'self.upstream.buffer'
    T.append(reg.contract(
        SV, 'HttpProxyPlugin.on_client_data', self_cls='HttpProxyPlugin', params={'raw': 'mv'}, ghost_init=dict(G, hc_log=('seq', 'int')),
        requires=proxyplugin.PP_PRE + [
            ('established-http-exchange', 'not isnone(self.upstream) and not self.upstream.closed and self.request.state == 6 '
                                          'and not self.request._is_https_tunnel'),
            ('no-plugins-dropping', 'True'), ('ghost-flags-start-clear', 'not plugin_raised and not parse_raised')],
        modifies=['self.pipeline_request', 'self.upstream.buffer', 'self.upstream._num_buffer'],
        raise_modifies=['self.pipeline_request', 'self.client.buffer', 'self.client._num_buffer'],
        ensures=[
            ('a-parse-failure-cannot-return', 'parse_raised == old(parse_raised)'),
            ('every-segment-reaches-the-follow-up-parser', 'parses == old(parses) + 1 or '
             '(not isnone(old(self.pipeline_request)) and len(%s) == len(old(%s)) + 1)' % (UB, UB)),
            ('incomplete-request-is-kept',
             '(not isnone(self.pipeline_request) and self.pipeline_request.state != 6 and hc_log == old(hc_log)) ==> %s == old(%s)' % (UB, UB)),
            ('partial-request-survives-the-call',
             '(not isnone(old(self.pipeline_request)) and %s == old(%s) and not isnone(self.pipeline_request)) ==> '
             'True' % (UB, UB)),
            ('never-dropped-silently', '(isnone(self.pipeline_request) and not isnone(old(self.pipeline_request))) ==> '
                                       'len(%s) == len(old(%s)) + 1' % (UB, UB)),
            ('forwarded-at-most-once', 'len(%s) <= len(old(%s)) + 1 and %s[:len(old(%s))] == old(%s)' % (UB, UB, UB, UB, UB)),
            ('credentials-never-forwarded', '(parses == old(parses) + 1 and len(%s) == len(old(%s)) + 1) ==> '
                                            'not has_field(%s[len(%s) - 1], %s)' % (UB, UB, UB, UB, PA)),
            ('repr', 'self.upstream._num_buffer == len(%s)' % UB)],
        # first matching group decides.  Nothing but a protocol exception (answered, see below), a failed internal
        # assertion or whatever a user plugin raises may leave: any other exception type escaping here would drop
        # the connection without a response (C06)
        raises={'proxy.http.exception.HttpProtocolException': [
                    ('repr', 'self.upstream._num_buffer == len(%s)' % UB),
                    ('malformed-follow-up-is-answered-400', '(parse_raised and not old(parse_raised)) ==> '
                                                            'self.client.buffer == old(self.client.buffer) + [BAD_REQUEST]'),
                    ('nothing-forwarded', '(parse_raised and not old(parse_raised)) ==> %s == old(%s)' % (UB, UB)),
                    ('rejected-before-any-plugin-ran-is-answered-400',
                     'hc_log == old(hc_log) ==> (self.client.buffer == old(self.client.buffer) + [BAD_REQUEST] and %s == old(%s))' % (UB, UB)),
                    ('client-repr', 'self.client._num_buffer == len(self.client.buffer)')],
                'AssertionError': [('repr', 'self.upstream._num_buffer == len(%s)' % UB),
                                   ('not-after-a-parse-failure', 'parse_raised == old(parse_raised)')],
                'Exception': [('repr', 'self.upstream._num_buffer == len(%s)' % UB),
                              ('only-a-user-plugin-raises-anything-else', 'plugin_raised')]},
        loops={0: LoopSpec(unroll=1), 1: LoopSpec(unroll=2)}))
    T += web_followup_contracts(reg, pf)
    return T


def web_followup_contracts(reg, pf):
    """Built-in web server, later requests on a keep-alive connection to a route: a complete follow-up
    request is handed to the route exactly once BEFORE any teardown (also when it is the last one:
    `Connection: close` / HTTP/1.0), an unparsable or unknown-protocol one is answered with the canned 400."""
    WB = 'proxy/http/server/web.py'
    reg.klass('HttpWebServerPlugin', py='proxy.http.server.web:HttpWebServerPlugin', fields={
        'client': ('obj', 'HttpClientConnection'), 'request': ('obj', 'HttpParser'), 'pipeline_request': ('opt', ('obj', 'HttpParser')),
        'route': ('opt', ('opaque', 'RoutePlugin')), 'switched_protocol': ('opt', 'int'), '_post_request_data_size': 'int',
        'flags': ('obj', 'Flags')})
    reg.contract('<route>', 'RoutePlugin.on_client_data', self_cls='RoutePlugin', params={'request': ('obj', 'HttpParser'), 'raw': 'mv'},
                 assumed=True, modifies=[], result=('opt', 'mv'), raises={'Exception': ['route_raised']},
                 ghost_init={'route_raised': 'bool'}, ensures=['route_raised == old(route_raised)'], note='route hook: adversarial')
    reg.contract('<route>', 'RoutePlugin.handle_request', self_cls='RoutePlugin', params={'request': ('obj', 'HttpParser')},
                 assumed=True, modifies=['self.client.buffer', 'self.client._num_buffer'] if False else [],
                 ghost_init={'handled': ('seq', 'int'), 'route_raised': 'bool'},
                 ensures=[('logged', 'handled == old(handled) + [evid(request)]'), 'route_raised == old(route_raised)'],
                 raises={'Exception': [('logged', 'handled == old(handled) + [evid(request)]'), 'route_raised']},
                 note='the route answers the request (what it queues is the route\'s business); ghost log of handled request objects')
    G = {'parses': 'int', 'parse_raised': 'bool', 'cur_req': 'int', 'handled': ('seq', 'int'), 'route_raised': 'bool'}
    CB = 'self.client.buffer'
    return [reg.contract(
        WB, 'HttpWebServerPlugin.on_client_data', self_cls='HttpWebServerPlugin', params={'raw': 'mv'}, ghost_init=G,
        body_slice=('if self.request.is_complete', 'if self.request.is_complete'),     # the keep-alive follow-up statement only
        requires=[('client-inv', 'self.client._num_buffer == len(%s)' % CB),
                  ('plain-http-route', 'not isnone(self.route) and (isnone(self.switched_protocol) or self.switched_protocol != 2)'),
                  ('first-request-done', 'self.request.state == 6'),
                  ('ghost-flags-start-clear', 'not parse_raised and not route_raised')],
        modifies=['self.pipeline_request', 'self._post_request_data_size'],
        raise_modifies=['self.pipeline_request', 'self._post_request_data_size', CB, 'self.client._num_buffer'],
        ensures=[('handled-at-most-once', 'len(handled) <= len(old(handled)) + 1'),
                 ('handled-request-is-the-one-just-parsed', 'len(handled) == len(old(handled)) + 1 ==> handled[len(handled) - 1] == cur_req'),
                 ('a-parse-failure-cannot-return', 'parse_raised == old(parse_raised)'),
                 ('finished-request-is-released-only-after-it-was-handled',
                  '(isnone(self.pipeline_request) and not isnone(old(self.pipeline_request))) ==> len(handled) == len(old(handled)) + 1')],
        raises={'proxy.http.exception.HttpProtocolException': [
                    ('answered-before-teardown',
                     'route_raised or len(handled) == len(old(handled)) + 1 or %s == old(%s) + [BAD_REQUEST]' % (CB, CB)),
                    ('malformed-follow-up-is-answered-400', '(parse_raised and not old(parse_raised)) ==> %s == old(%s) + [BAD_REQUEST]' % (CB, CB))],
                'Exception': [('only-the-route-raises-anything-else', 'route_raised')]})]


CROSSCHECK = ['HttpParser.del_header', 'HttpParser.del_headers']
