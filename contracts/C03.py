"""C03 — incremental HTTP parsing does not depend on how input is segmented.

Deductive part: step contracts of the framing skeleton (which bytes are consumed, which are
kept, when a body piece is complete) on the real find_http_line, ChunkParser.process and
HttpParser._process_body.  The relational statement itself (feed(pieces) == feed(whole)) is
decided by an exhaustive native cut-set sweep over a message family — a BOUNDED stand-in,
labelled as such (the full refinement proof of DESIGN.md 4/C03 was not attempted)."""
from pyvc.engine import LoopSpec
from . import externs, proxyplugin

CH = 'proxy/http/parser/chunk.py'
PF = 'proxy/http/parser/parser.py'
UT = 'proxy/common/utils.py'
LEVEL = 'proof'
EXPLANATION = ('step contracts, the parse() driver loop (what is consumed / kept, termination) and the parser representation invariant '
               'are proved for all inputs; segmentation independence of whole messages is a bounded native sweep (every 1..3-piece '
               'segmentation of a generated message family, plus byte-by-byte) with a hostile-input termination sweep and a CPython '
               'cross-check of the contracts')
ASSUMPTIONS = ['A-STR: int(text, 16) / int(text) uninterpreted; whitespace = the six ASCII whitespace bytes',
               'segmentation independence of complete messages: bounded native sweep, not proved']
CRLF = "b'\\r\\n'"
WF = ('(%(c)s.state == 1 or %(c)s.state == 2 or %(c)s.state == 3) and '
      '(%(c)s.state == 2 ==> (not isnone(%(c)s.size) and %(c)s.size > 0 and len(%(c)s.chunk) < %(c)s.size)) and '
      '(%(c)s.state == 1 ==> ((isnone(%(c)s.size) or %(c)s.size == 0) and %(c)s.chunk.find(b\'\\r\\n\') < 0))')
X = '(old(self.chunk) + raw)'
CLV = "int_dec(self.headers[b'content-length'][1])"
# parser representation invariant (what _process_body relies on to terminate):
#   a body is expected only with a usable, positive Content-Length value in the header map
PWF = ("(self._content_expected ==> (not isnone(self.headers) and self.headers.has(b'content-length') and "
       "int_dec_ok(self.headers[b'content-length'][1]) and %s > 0))" % CLV)
#   nothing of the body exists before the headers are complete, and a Content-Length body in progress is still short
BWF = ("((self.state <= 3 ==> isnone(self.body)) and "
       "((self._content_expected and not self._is_chunked_encoded and self.state <= 5 and not isnone(self.body)) ==> len(self.body) < %s))" % CLV)


def build(reg):
    from pyvc.engine import from_py
    reg.spec_consts['EMPTY'] = from_py(b'')
    externs.add_text(reg)
    externs.add_strfuns(reg)
    externs.add_intparse(reg)
    reg.klass('ChunkParser', py='proxy.http.parser.chunk:ChunkParser',
              fields={'state': 'int', 'body': 'bytes', 'chunk': 'bytes', 'size': ('opt', 'int')})
    T = []
    T.append(reg.contract(
        UT, 'find_http_line', params={'raw': 'bytes'}, result=('tuple', ('opt', 'bytes'), 'bytes'), modifies=[],
        ensures=[('no-crlf', 'raw.find(%s) < 0 ==> (isnone(result[0]) and result[1] == raw)' % CRLF),
                 ('first-crlf', 'raw.find(%s) >= 0 ==> (not isnone(result[0]) and result[0] == raw[:raw.find(%s)] and '
                                'result[1] == raw[raw.find(%s) + 2:])' % (CRLF, CRLF, CRLF))],
        raises={}))
    REM = '(old(self.size) - len(old(self.chunk)))'
    FULL = '(old(self.chunk) + raw[:%s])' % REM
    T.append(reg.contract(
        CH, 'ChunkParser.process', self_cls='ChunkParser', params={'raw': 'bytes'}, result=('tuple', 'bool', 'mv'),
        requires=[('state', 'self.state == 1 or self.state == 2'),
                  ('data-state', 'self.state == 2 ==> (not isnone(self.size) and self.size > 0 and len(self.chunk) < self.size)'),
                  ('size-state', 'self.state == 1 ==> (isnone(self.size) or self.size == 0)'),
                  ('line-buffer-holds-no-complete-line', 'self.state == 1 ==> self.chunk.find(%s) < 0' % CRLF)],
        modifies=['self.state', 'self.body', 'self.chunk', 'self.size'],
        cases=[('waiting-for-data', 'self.state == 2'), ('waiting-for-size', 'self.state == 1')],
        ensures=[
            # ---- chunk data
            ('data-partial', '(old(self.state) == 2 and len(%s) < old(self.size)) ==> '
                             '(self.chunk == %s and len(result[1]) == 0 and self.state == 2 and self.body == old(self.body) '
                             'and self.size == old(self.size))' % (FULL, FULL)),
            ('data-complete', '(old(self.state) == 2 and len(%s) == old(self.size)) ==> '
                              '(self.body == old(self.body) + %s and self.chunk == EMPTY and self.state == 1 and isnone(self.size))' % (FULL, FULL)),
            ('data-rest', '(old(self.state) == 2 and len(%s) == old(self.size)) ==> result[1] == '
                          '(raw[%s + 2:] if raw[%s:%s + 2] == %s else raw[%s:])' % (FULL, REM, REM, REM, CRLF, REM)),
            ('never-more-than-size', 'old(self.state) == 2 ==> len(self.chunk) <= old(self.size)'),
            # ---- size / blank / trailer lines
            ('line-incomplete', '(old(self.state) == 1 and %s.find(%s) < 0) ==> (self.chunk == %s and len(result[1]) == 0 '
                                'and self.state == 1 and self.body == old(self.body) and self.size == old(self.size))' % (X, CRLF, X)),
            ('line-consumed', '(old(self.state) == 1 and %s.find(%s) >= 0) ==> (self.chunk == EMPTY and '
                              'result[1] == %s[%s.find(%s) + 2:] and self.body == old(self.body))' % (X, CRLF, X, X, CRLF)),
            ('more-flag', 'result[0] == (len(result[1]) > 0)'),
            ('rest-is-a-suffix', 'raw.endswith(result[1])'),
            ('progress', 'len(raw) > 0 ==> len(result[1]) < len(raw)'),
            ('well-formed-after', WF % {'c': 'self'}),
            ('complete-only-at-blank-line-after-last-chunk',
             'self.state == 3 ==> (old(self.state) == 1 and not isnone(old(self.size)) and old(self.size) == 0 and %s.find(%s) >= 0)' % (X, CRLF)),
        ],
        raises={'ValueError': [('only-from-a-size-line', 'old(self.state) == 1')]}))
    T.append(reg.contract(
        CH, 'ChunkParser.parse', self_cls='ChunkParser', params={'raw': 'mv'}, result='mv',
        requires=[('well-formed', WF % {'c': 'self'})],
        modifies=['self.state', 'self.body', 'self.chunk', 'self.size'], raise_modifies=['self.state', 'self.body', 'self.chunk', 'self.size'],
        ensures=[('rest-is-a-suffix', 'raw.endswith(result)'), ('well-formed-after', WF % {'c': 'self'}),
                 ('stops-only-when-done', 'self.state == 3 or len(result) == 0'),
                 ('empty-input-is-a-no-op', 'len(raw) == 0 ==> unchanged(self.state, self.body, self.chunk, self.size)')],
        raises={'ValueError': []},
        loops={0: LoopSpec(inv=['pre_raw.endswith(raw)', WF % {'c': 'self'}, 'more == (len(raw) > 0)',
                                'len(pre_raw) == 0 ==> unchanged(self.state, self.body, self.chunk, self.size)'],
                           modifies=['raw', 'more', 'self.state', 'self.body', 'self.chunk', 'self.size'], snapshot=['raw'],
                           decreases='len(raw)')}))
    T += body_contracts(reg)
    T += driver_contracts(reg)
    return T


def body_contracts(reg):
    """HttpParser._process_body, Content-Length framing: exactly the missing bytes are taken, the
    rest is returned untouched, completion exactly when the declared length is reached."""
    proxyplugin.add_parser_class(reg)
    pf = dict(proxyplugin.PARSER_FIELDS)
    pf['chunk'] = ('opt', ('obj', 'ChunkParser'))
    reg.klass('HttpParser', py='proxy.http.parser.parser:HttpParser', fields=pf)
    CL = "int_dec(self.headers[b'content-length'][1])"
    HAVE = "(b'' if isnone(old(self.body)) else old(self.body))"
    NEED = '(%s - len(%s))' % (CL, HAVE)
    CLF = ("(not old(self._is_chunked_encoded) and old(self._content_expected) and not isnone(old(self.headers)) and "
           "old(self.headers).has(b'content-length') and int_dec_ok(old(self.headers)[b'content-length'][1]) and "
           "int_dec(old(self.headers)[b'content-length'][1]) > 0 and "
           "(isnone(old(self.body)) or len(old(self.body)) < int_dec(old(self.headers)[b'content-length'][1])))")
    CMOD = ['self.chunk', 'self.chunk.state', 'self.chunk.body', 'self.chunk.chunk', 'self.chunk.size']
    return [reg.contract(
        PF, 'HttpParser._process_body', self_cls='HttpParser', params={'raw': 'mv'}, result=('tuple', 'bool', 'mv'),
        requires=[('state', 'self.state == 4 or self.state == 5'),
                  ('chunk-parser-well-formed', 'isnone(self.chunk) or (%s)' % (WF % {'c': 'self.chunk'})),
                  ('content-length-usable-when-expected', PWF), ('body-still-short', BWF)],
        modifies=['self.state', 'self.body'] + CMOD, raise_modifies=['self.state', 'self.body'] + CMOD,
        cases=[('content-length', CLF.replace('old(', '(')), ('chunked', 'self._is_chunked_encoded'),
               ('other', 'not self._is_chunked_encoded and not (%s)' % CLF.replace('old(', '('))],
        ensures=[('takes-exactly-the-missing-bytes', '%s ==> self.body == %s + raw[:%s]' % (CLF, HAVE, NEED)),
                 ('rest-untouched', '%s ==> result[1] == raw[%s:]' % (CLF, NEED)),
                 ('complete-exactly-at-declared-length', '%s ==> ((self.state == 6) == (len(self.body) == %s))' % (CLF, CL)),
                 ('otherwise-receiving', '%s ==> (self.state == 6 or self.state == 5)' % CLF),
                 ('more-flag', '%s ==> result[0] == (len(raw) > 0)' % CLF),
                 # ---- whatever the framing
                 ('rest-is-a-suffix', 'raw.endswith(result[1])'),
                 ('state', 'self.state == 4 or self.state == 5 or self.state == 6'),
                 ('chunk-parser-well-formed-after', 'isnone(self.chunk) or (%s)' % (WF % {'c': 'self.chunk'})),
                 ('flags-kept', 'unchanged(self._is_chunked_encoded, self._content_expected)'),
                 ('more-means-progress', 'result[0] ==> len(result[1]) < len(raw)'),
                 ('body-still-short-after', BWF)],
        raises={'ValueError': []})]


def driver_contracts(reg):
    """The line / header steps and the driver loop of HttpParser.parse, and ChunkParser.parse:
    whatever the input, a step hands back a SUFFIX of what it was given, consumes only whole
    CRLF-terminated lines (or nothing when no line is complete), and parse() keeps exactly the
    unconsumed tail in self.buffer -- the conservation law under segmentation independence."""
    pf = dict(reg.classes['HttpParser']['fields'])
    reg.klass('ProxyProtocol', py='proxy.http.parser.protocol:ProxyProtocol', fields={'version': ('opt', 'int')})
    pf['protocol'] = ('opt', ('obj', 'ProxyProtocol'))
    reg.klass('HttpParser', py='proxy.http.parser.parser:HttpParser', fields=pf)
    reg.contract('proxy/http/parser/protocol.py', 'ProxyProtocol.parse', self_cls='ProxyProtocol', params={'raw': 'bytes'},
                 assumed=True, modifies=['self.version'], raise_modifies=['self.version'],
                 ensures=[('version-known', 'not isnone(self.version)')], raises={'Exception': []},
                 note='PROXY protocol v1 line (not part of the framing argument): sets the version or raises')
    HMOD = ['self.headers', 'self._content_expected', 'self._is_chunked_encoded']
    T = []
    T.append(reg.contract(
        PF, 'HttpParser._process_header', self_cls='HttpParser', params={'raw': 'bytes'},
        requires=[('content-length-usable-when-expected', PWF)],
        modifies=HMOD, raise_modifies=HMOD,
        ensures=[('content-length-usable-when-expected', PWF),
                 ('some-field-stored', 'not isnone(self.headers) and len(self.headers) > 0')],
        raises={'ValueError': []},
        note='one field line into the header map; int() of a bad Content-Length raises (the map may then hold the bad value: '
             'the exception leaves parse(), the parser is not used again)'))
    reg.contract(PF, 'HttpParser.set_url', self_cls='HttpParser', params={'url': 'bytes', 'allowed_url_schemes': ('opt', ('list', 'bytes'))},
                 assumed=True, modifies=['self.host', 'self.port', 'self.path'], raise_modifies=['self.host', 'self.port', 'self.path'],
                 raises={'Exception': []}, note='request-target parsing: C14')
    CONS = 'pre_raw[:len(pre_raw) - len(raw)]'
    STEP_POST = [('rest-is-a-suffix', 'raw.endswith(result[1])'),
                 ('no-complete-line-nothing-consumed', 'raw.find(%s) < 0 ==> (result[1] == raw and not result[0] and self.state == old(self.state))' % CRLF),
                 ('only-whole-lines-consumed', 'len(result[1]) < len(raw) ==> raw[:len(raw) - len(result[1])].endswith(%s)' % CRLF),
                 ('more-means-rest', 'result[0] == (len(result[1]) > 0) or raw.find(%s) < 0 or result[1].find(%s) < 0' % (CRLF, CRLF))]
    STEP_INV = ['pre_raw.endswith(raw)', 'len(raw) < len(pre_raw) ==> %s.endswith(%s)' % (CONS, CRLF)]
    T.append(reg.contract(
        PF, 'HttpParser._process_headers', self_cls='HttpParser', params={'raw': 'mv'}, result=('tuple', 'bool', 'mv'),
        requires=[('state', 'self.state == 2 or self.state == 3'), ('content-length-usable-when-expected', PWF)],
        modifies=HMOD + ['self.state'], raise_modifies=HMOD + ['self.state'],
        ensures=STEP_POST + [('state', 'self.state == 2 or self.state == 3 or self.state == 4'),
                             ('content-length-usable-when-expected', PWF),
                             ('more-means-progress', 'result[0] ==> len(result[1]) < len(raw)'),
                             ('stops-only-when-done', 'self.state == 4 or len(result[1]) == 0 or result[1].find(%s) < 0' % CRLF)],
        raises={'ValueError': []},
        loops={0: LoopSpec(inv=STEP_INV + ['self.state == 2 or self.state == 3', PWF,
                                           'len(raw) == len(pre_raw) ==> self.state == old(self.state)'],
                           modifies=['raw', 'parts', 'line', 'self.state'] + HMOD, snapshot=['raw'], decreases='len(raw)')}))
    LMOD = ['self.method', 'self._is_https_tunnel', 'self.version', 'self.code', 'self.reason', 'self.state',
            'self.host', 'self.port', 'self.path', 'self.protocol.version']
    T.append(reg.contract(
        PF, 'HttpParser._process_line', self_cls='HttpParser',
        params={'raw': 'mv', 'allowed_url_schemes': ('opt', ('list', 'bytes'))}, result=('tuple', 'bool', 'mv'),
        requires=[('state', 'self.state == 1'), ('type', 'self.type == 1 or self.type == 2')],
        modifies=LMOD, raise_modifies=LMOD,
        ensures=STEP_POST + [('state', 'self.state == 1 or self.state == 2'),
                             ('line-received-only-by-consuming-a-line', 'self.state == 2 ==> len(result[1]) < len(raw)'),
                             ('more-means-progress', 'result[0] ==> len(result[1]) < len(raw)')],
        raises={'Exception': []},
        loops={0: LoopSpec(inv=STEP_INV + ['self.state == 1'],
                           modifies=['raw', 'parts', 'line', 'self.protocol.version'], snapshot=['raw'], decreases='len(raw)')}))
    CMOD = ['self.chunk', 'self.chunk.state', 'self.chunk.body', 'self.chunk.chunk', 'self.chunk.size']
    PMOD = ['self.' + f for f in pf if f not in ('type', 'protocol', 'chunk')] + CMOD + ['self.protocol.version']
    CWF = 'isnone(self.chunk) or (%s)' % (WF % {'c': 'self.chunk'})
    B = "((b'' if isnone(old(self.buffer)) else old(self.buffer)) + raw)"
    T.append(reg.contract(
        PF, 'HttpParser.parse', self_cls='HttpParser', params={'raw': 'mv', 'allowed_url_schemes': ('opt', ('list', 'bytes'))},
        requires=[('state', 'self.state >= 1 and self.state <= 6'), ('type', 'self.type == 1 or self.type == 2'),
                  ('chunk-parser-well-formed', CWF),
                  ('buffer-holds-no-complete-line', '(self.state <= 3 and not isnone(self.buffer)) ==> self.buffer.find(%s) < 0' % CRLF),
                  ('content-length-usable-when-expected', PWF), ('body-still-short', BWF)],
        modifies=PMOD, raise_modifies=PMOD,
        ensures=[('size', 'self.total_size == old(self.total_size) + len(raw)'),
                 ('unconsumed-tail-kept', 'isnone(self.buffer) or (len(self.buffer) > 0 and %s.endswith(self.buffer))' % B),
                 ('empty-input-is-a-no-op', 'len(raw) == 0 ==> (self.state == old(self.state) and '
                                            '(isnone(self.buffer) == isnone(old(self.buffer)) or len(old(self.buffer)) == 0) and '
                                            '(not isnone(self.buffer) ==> self.buffer == old(self.buffer)))'),
                 # in the line / header states the split is unique: everything up to the last CRLF is consumed,
                 # exactly the partial line after it is kept
                 ('exactly-the-partial-line-is-kept',
                  'self.state <= 3 ==> (REST.find(%s) < 0 and (len(REST) == len(%s) or %s[:len(%s) - len(REST)].endswith(%s)))'.replace(
                      'REST', "(b'' if isnone(self.buffer) else self.buffer)") % (CRLF, B, B, B, CRLF)),
                 ('state', 'self.state >= 1 and self.state <= 6'),
                 ('chunk-parser-well-formed-after', CWF),
                 ('content-length-usable-when-expected', PWF), ('body-still-short-after', BWF)],
        raises={'Exception': [('size', 'self.total_size == old(self.total_size) + len(raw)')]},
        loops={0: LoopSpec(decreases='len(raw) + (1 if more else 0)',
                           inv=['pre_raw.endswith(raw)', 'self.state >= 1 and self.state <= 6', CWF, PWF, BWF,
                                'self.total_size == old(self.total_size) + size', 'isnone(self.buffer)',
                                'size == 0 ==> (not more and self.state == old(self.state) and raw == pre_raw)',
                                '(self.state <= 3 and not more) ==> raw.find(%s) < 0' % CRLF,
                                'len(raw) == len(pre_raw) or pre_raw[:len(pre_raw) - len(raw)].endswith(%s) or self.state >= 4' % CRLF],
                           modifies=['raw', 'more'] + [m for m in PMOD if m not in ('self.total_size', 'self.buffer')],
                           snapshot=['raw'])}))
    return T


def bounded_checks(reg, tier, seed):
    from . import parser_sweep
    return [parser_sweep.sweep(tier, seed), parser_sweep.hostile(tier, seed)]


CROSSCHECK = ['find_http_line', 'ChunkParser.process', 'HttpParser._process_body', 'ChunkParser.parse',
              'HttpParser._process_headers', 'HttpParser._process_line', 'HttpParser.parse', 'HttpParser._process_header']


def crosscheck_gens(reg):
    """input generators for the CPython cross-check where the preconditions are too narrow for
    type-directed random generation (they only choose inputs; acceptance is still decided by
    evaluating the contract's `requires` natively)"""
    def chunk_process(g, rnd):
        o = g.obj('ChunkParser')
        o.body = g.bytes_()
        if rnd.random() < 0.5:
            o.state, o.size = 2, rnd.randrange(1, 24)
            o.chunk = bytes(rnd.randrange(256) for _ in range(rnd.randrange(0, o.size)))
            raw = bytes(rnd.randrange(256) for _ in range(rnd.randrange(0, 30)))
            if rnd.random() < 0.6:      # put the CRLF where the data ends, or one off
                k = o.size - len(o.chunk) + rnd.choice([0, 0, 0, 1, -1])
                raw = raw[:max(0, k)] + b'\r\n' + raw[max(0, k):]
        else:
            o.state, o.size = 1, rnd.choice([None, None, 0])
            o.chunk = rnd.choice([b'', b'', b'1', b'a;x=', b'\r', b'Trailer: v', b'0'])
            raw = rnd.choice([b'', b'5', b'1f', b'0', b'A;ext=1', b'zz', b'\n', b'7\r', b'', b'X-T: 1']) + \
                rnd.choice([b'', b'\r\n', b'\r\nabc', b'\r\n\r\n', b'\r', b'\n\r\n'])
        return o, {'raw': raw}

    def process_body(g, rnd):
        o = g.obj('HttpParser')
        n = rnd.randrange(1, 40)
        o._is_chunked_encoded, o._content_expected = False, True
        o.headers = {b'content-length': (rnd.choice([b'Content-Length', b'content-length']), b'%d' % n)}
        o.body = None if rnd.random() < 0.4 else bytes(rnd.randrange(256) for _ in range(rnd.randrange(0, n)))
        o.state = rnd.choice([4, 5])
        return o, {'raw': memoryview(bytes(rnd.randrange(256) for _ in range(rnd.randrange(0, 60))))}
    from . import parser_sweep
    fam = [(t, m) for t, m, _ in parser_sweep.family()]
    fam += [(1, b'GET / HTTP/1.1\r\nHost: a\r\n\r\nGET /2 HTTP/1.1\r\n\r\n'), (1, b'POST / HTTP/1.1\r\nContent-Length: 3\r\n\r\nabcdef'),
            (2, b'HTTP/1.1 200 OK\r\n\r\n'), (2, b'HTTP/1.0 200 OK\r\nX: 1\r\n\r\nbody until close'),
            (1, b'PUT /x HTTP/1.1\r\nTransfer-Encoding: chunked\r\n\r\n3;a=b\r\nabc\r\n0\r\nT: 1\r\n\r\nNEXT'),
            (1, b'BROKEN\r\n\r\n'), (1, b'GET / HTTP/1.1\r\nContent-Length: x\r\n\r\n'), (1, b'PUT / HTTP/1.1\r\nTransfer-Encoding: chunked\r\n\r\nzz\r\n')]

    def fed_parser(rnd):
        """a real parser in a reachable state: a message family member fed up to a random cut"""
        from proxy.http.parser import HttpParser
        while True:
            t, m = rnd.choice(fam)
            a = rnd.randrange(0, len(m) + 1)
            b = rnd.randrange(a, len(m) + 1) if rnd.random() < 0.8 else a
            pr = HttpParser(t)
            try:
                if a:
                    pr.parse(memoryview(m[:a]))
            except Exception:       # noqa
                continue
            return pr, m[a:b]

    def parse(g, rnd):
        pr, piece = fed_parser(rnd)
        return pr, {'raw': memoryview(piece), 'allowed_url_schemes': None}

    def headers_step(g, rnd):
        from proxy.http.parser import HttpParser
        pr = HttpParser(rnd.choice([1, 2]))
        pr.parse(memoryview(b'GET / HTTP/1.1\r\n' if pr.type == 1 else b'HTTP/1.1 200 OK\r\n'))
        if rnd.random() < 0.5:
            pr.parse(memoryview(b'A: b\r\n'))
        raw = b''.join(rnd.choice([b'K: v\r\n', b'Content-Length: 4\r\n', b'\r\n', b'X', b'\r', b'\n', b'Transfer-Encoding: chunked\r\n',
                                   b'Content-Length: q\r\n', b'body']) for _ in range(rnd.randrange(0, 5)))
        return pr, {'raw': memoryview(raw)}

    def line_step(g, rnd):
        from proxy.http.parser import HttpParser
        pr = HttpParser(rnd.choice([1, 2]))
        raw = b''.join(rnd.choice([b'GET / HTTP/1.1', b'HTTP/1.1 200 OK', b'CONNECT h:443 HTTP/1.1', b'\r\n', b'\r', b'X: y\r\n', b'HTTP/1.1 200', b'junk',
                                   b'GET http://h/p HTTP/1.1\r\n']) for _ in range(rnd.randrange(0, 4)))
        return pr, {'raw': memoryview(raw), 'allowed_url_schemes': None}

    def chunk_parse(g, rnd):
        o, a = chunk_process(g, rnd)
        return o, {'raw': memoryview(a['raw'] + rnd.choice([b'', b'3\r\nabc\r\n', b'0\r\n\r\n', b'\r\n0\r\n\r\nTAIL']))}
    def header_step(g, rnd):
        pr, _ = fed_parser(rnd)
        line = rnd.choice([b'Content-Length', b'content-length', b'Transfer-Encoding', b'X', b'', b'Host']) + rnd.choice([b':', b': ', b'', b' :']) + \
            rnd.choice([b'5', b'0', b'-3', b'x', b'chunked', b'CHUNKED', b'', b' 7 ', b'identity'])
        return pr, {'raw': line}
    return {'HttpParser._process_header': header_step, 'ChunkParser.process': chunk_process, 'HttpParser._process_body': process_body, 'ChunkParser.parse': chunk_parse,
            'HttpParser._process_headers': headers_step, 'HttpParser._process_line': line_step, 'HttpParser.parse': parse}
