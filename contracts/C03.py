"""C03 — incremental HTTP parsing does not depend on how input is segmented.

Deductive part: step contracts of the framing skeleton (which bytes are consumed, which are
kept, when a body piece is complete) on the real find_http_line, ChunkParser.process and
HttpParser._process_body.  The relational statement itself (feed(pieces) == feed(whole)) is
decided by an exhaustive native cut-set sweep over a message family — a BOUNDED stand-in,
labelled as such (the full refinement proof of DESIGN.md 4/C03 was not attempted)."""
from pyvc.engine import LoopSpec
from . import externs, proxyplugin

CH = 'proxy/http/parser/chunk.py'
PF = 'proxy/http/parser/parser.py'
UT = 'proxy/common/utils.py'
LEVEL = 'proof'
EXPLANATION = ('step contracts are proved for all inputs; segmentation independence of whole messages is a bounded '
               'native sweep (every 1..3-piece segmentation of a generated message family, plus byte-by-byte)')
ASSUMPTIONS = ['A-STR: int(text, 16) / int(text) uninterpreted; whitespace = the six ASCII whitespace bytes',
               'segmentation independence of complete messages: bounded native sweep, not proved']
CRLF = "b'\\r\\n'"
X = '(old(self.chunk) + raw)'


def build(reg):
    from pyvc.engine import from_py
    reg.spec_consts['EMPTY'] = from_py(b'')
    externs.add_text(reg)
    externs.add_strfuns(reg)
    externs.add_intparse(reg)
    reg.klass('ChunkParser', py='proxy.http.parser.chunk:ChunkParser',
              fields={'state': 'int', 'body': 'bytes', 'chunk': 'bytes', 'size': ('opt', 'int')})
    T = []
    T.append(reg.contract(
        UT, 'find_http_line', params={'raw': 'bytes'}, result=('tuple', ('opt', 'bytes'), 'bytes'), modifies=[],
        ensures=[('no-crlf', 'raw.find(%s) < 0 ==> (isnone(result[0]) and result[1] == raw)' % CRLF),
                 ('first-crlf', 'raw.find(%s) >= 0 ==> (not isnone(result[0]) and result[0] == raw[:raw.find(%s)] and '
                                'result[1] == raw[raw.find(%s) + 2:])' % (CRLF, CRLF, CRLF))],
        raises={}))
    REM = '(old(self.size) - len(old(self.chunk)))'
    FULL = '(old(self.chunk) + raw[:%s])' % REM
    T.append(reg.contract(
        CH, 'ChunkParser.process', self_cls='ChunkParser', params={'raw': 'bytes'}, result=('tuple', 'bool', 'mv'),
        requires=[('state', 'self.state == 1 or self.state == 2'),
                  ('data-state', 'self.state == 2 ==> (not isnone(self.size) and self.size > 0 and len(self.chunk) < self.size)'),
                  ('size-state', 'self.state == 1 ==> (isnone(self.size) or self.size == 0)')],
        modifies=['self.state', 'self.body', 'self.chunk', 'self.size'],
        cases=[('waiting-for-data', 'self.state == 2'), ('waiting-for-size', 'self.state == 1')],
        ensures=[
            # ---- chunk data
            ('data-partial', '(old(self.state) == 2 and len(%s) < old(self.size)) ==> '
                             '(self.chunk == %s and len(result[1]) == 0 and self.state == 2 and self.body == old(self.body) '
                             'and self.size == old(self.size))' % (FULL, FULL)),
            ('data-complete', '(old(self.state) == 2 and len(%s) == old(self.size)) ==> '
                              '(self.body == old(self.body) + %s and self.chunk == EMPTY and self.state == 1 and isnone(self.size))' % (FULL, FULL)),
            ('data-rest', '(old(self.state) == 2 and len(%s) == old(self.size)) ==> result[1] == '
                          '(raw[%s + 2:] if raw[%s:%s + 2] == %s else raw[%s:])' % (FULL, REM, REM, REM, CRLF, REM)),
            ('never-more-than-size', 'old(self.state) == 2 ==> len(self.chunk) <= old(self.size)'),
            # ---- size / blank / trailer lines
            ('line-incomplete', '(old(self.state) == 1 and %s.find(%s) < 0) ==> (self.chunk == %s and len(result[1]) == 0 '
                                'and self.state == 1 and self.body == old(self.body) and self.size == old(self.size))' % (X, CRLF, X)),
            ('line-consumed', '(old(self.state) == 1 and %s.find(%s) >= 0) ==> (self.chunk == EMPTY and '
                              'result[1] == %s[%s.find(%s) + 2:] and self.body == old(self.body))' % (X, CRLF, X, X, CRLF)),
            ('more-flag', 'result[0] == (len(result[1]) > 0)'),
            ('complete-only-at-blank-line-after-last-chunk',
             'self.state == 3 ==> (old(self.state) == 1 and not isnone(old(self.size)) and old(self.size) == 0 and %s.find(%s) >= 0)' % (X, CRLF)),
        ],
        raises={'ValueError': [('only-from-a-size-line', 'old(self.state) == 1')]}))
    T += body_contracts(reg)
    return T


def body_contracts(reg):
    """HttpParser._process_body, Content-Length framing: exactly the missing bytes are taken, the
    rest is returned untouched, completion exactly when the declared length is reached."""
    proxyplugin.add_parser_class(reg)
    pf = dict(proxyplugin.PARSER_FIELDS)
    pf['chunk'] = ('opt', ('obj', 'ChunkParser'))
    reg.klass('HttpParser', py='proxy.http.parser.parser:HttpParser', fields=pf)
    CL = "int_dec(self.headers[b'content-length'][1])"
    HAVE = "(b'' if isnone(old(self.body)) else old(self.body))"
    NEED = '(%s - len(%s))' % (CL, HAVE)
    return [reg.contract(
        PF, 'HttpParser._process_body', self_cls='HttpParser', params={'raw': 'mv'}, result=('tuple', 'bool', 'mv'),
        requires=[('content-length-framing', 'not self._is_chunked_encoded and self._content_expected'),
                  ('header-present', "not isnone(self.headers) and self.headers.has(b'content-length') and "
                                     "int_dec_ok(self.headers[b'content-length'][1]) and %s > 0" % CL),
                  ('body-so-far', 'isnone(self.body) or len(self.body) < %s' % CL.replace('old(', '(')),
                  ('state', 'self.state == 4 or self.state == 5')],
        modifies=['self.state', 'self.body'],
        ensures=[('takes-exactly-the-missing-bytes', 'self.body == %s + raw[:%s]' % (HAVE, NEED)),
                 ('rest-untouched', 'result[1] == raw[%s:]' % NEED),
                 ('complete-exactly-at-declared-length', '(self.state == 6) == (len(self.body) == %s)' % CL),
                 ('otherwise-receiving', 'self.state == 6 or self.state == 5'),
                 ('more-flag', 'result[0] == (len(raw) > 0)')],
        raises={})]


def bounded_checks(reg, tier, seed):
    from . import parser_sweep
    return [parser_sweep.sweep(tier, seed)]
