"""C19 — listens where configured, reports its ports truthfully, shuts down cleanly (REDUCED).

In reach: the port write-back slice of Proxy.setup, _write_port_file, the ordered shutdown.
ListenerPool.setup is used through a contract that states the creation order read from its
source (additional --ports listeners first, the --port listener last, one listening address).
Out of reach: that a bound endpoint accepts, child processes, behaviour per execution mode."""
import z3
from pyvc.engine import LoopSpec, SpecFun, fresh_name
from pyvc.vals import HObj, VStr, VOpaque, NONE
from . import externs

PX = 'proxy/proxy.py'
ASSUMPTIONS = ['single listening address (as the property requires for OS-assigned ports)',
               'bound TCP ports of one address are pairwise distinct',
               'ListenerPool.setup creation order (--ports first, --port last) is an assumed contract read from its source; '
               'itertools.product / set literals are outside the accepted subset',
               'list(set) order is unspecified in Python; modelled as insertion order (only set equality and "primary first" are claimed)',
               'bounded: at most 3 additional --ports entries (the property\'s own bound)']
POOL = 'self.listeners.pool'


def build(reg):
    externs.add_text(reg)
    reg.specfuns['Listener_attr__port'] = SpecFun('Listener_attr__port', [('opaque', 'Listener')], 'int')
    reg.klass('Flags', py=None, fields={'port': 'int', 'ports': ('list', 'int'), 'unix_socket_path': ('opt', 'str'),
                                        'port_file': ('opt', 'str'), 'hostname': ('opaque', 'IP'),
                                        'hostnames': ('list', ('opaque', 'IP'))})
    reg.klass('ListenerPool', py='proxy.core.listener.pool:ListenerPool',
              fields={'flags': ('obj', 'Flags'), 'pool': ('list', ('opaque', 'Listener'))})
    reg.klass('Proxy', py='proxy.proxy:Proxy', fields={'flags': ('obj', 'Flags'), 'listeners': ('opt', ('obj', 'ListenerPool'))})
    # creation order as read from ListenerPool.setup (assumed): [unix]? ++ [L(p) for p in ports] ++ [L(port)]?
    reg.contract('proxy/core/listener/pool.py', 'ListenerPool.setup', self_cls='ListenerPool', assumed=True,
                 modifies=['self.pool'],
                 ensures=[('tcp-only-shape', 'isnone(self.flags.unix_socket_path) ==> len(self.pool) == len(self.flags.ports) + 1'),
                          ('unix-shape', 'not isnone(self.flags.unix_socket_path) ==> len(self.pool) == len(self.flags.ports) + 1'),
                          ('fixed-ports-kept', "forall('j', 0, len(self.flags.ports), self.flags.ports[j] != 0 ==> "
                                               "Listener_attr__port(self.pool[j + (0 if isnone(self.flags.unix_socket_path) else 1)]) == self.flags.ports[j])"),
                          ('fixed-primary-kept', '(isnone(self.flags.unix_socket_path) and self.flags.port != 0) ==> '
                                                 'Listener_attr__port(self.pool[len(self.flags.ports)]) == self.flags.port'),
                          ('bound-ports-distinct', "forall('a', 0, len(self.pool), forall('b', 0, len(self.pool), a != b ==> "
                                                   "Listener_attr__port(self.pool[a]) != Listener_attr__port(self.pool[b])))")],
                 raises={'OSError': []}, note='bind/listen')
    reg.klass('File', py=None, fields={})

    def open_(ex, st, args, kwargs, fr):
        st.ghost['opened_file'] = args[0]
        return ex.val(st.alloc(HObj('File', {}, None)), st)
    reg.externs['io.open'] = open_
    reg.externs['open'] = open_
    reg.externs['_io.open'] = open_
    reg.contract('<env>', 'File.write', params={'data': 'bytes'}, self_cls='File', assumed=True, modifies=[], result='int',
                 ghost_init={'written': 'bytes'}, ensures=['written == old(written) + data'], raises={})
    T = []
    PRIMARY = 'Listener_attr__port(%s[len(old(self.flags.ports))])' % POOL
    T.append(reg.contract(
        PX, 'Proxy.setup', self_cls='Proxy', ghost_init={'written': 'bytes'},
        body_slice=('self.listeners = ListenerPool', 'self._write_port_file()'),
        requires=[('tcp', 'isnone(self.flags.unix_socket_path)'), ('bounded', 'len(self.flags.ports) <= 3')],
        modifies=['self.listeners', 'self.flags.port', 'self.flags.ports'],
        ensures=[('primary-port-is-the-primary-listener', 'self.flags.port == %s' % PRIMARY),
                 ('every-additional-port-reported',
                  "forall('j', 0, len(old(self.flags.ports)), contains(self.flags.ports, Listener_attr__port(%s[j])))" % POOL),
                 ('nothing-else-reported',
                  "forall('j', 0, len(self.flags.ports), exists('k', 0, len(old(self.flags.ports)), "
                  "self.flags.ports[j] == Listener_attr__port(%s[k])))" % POOL),
                 ('primary-not-repeated', 'not contains(self.flags.ports, self.flags.port)')],
        raises={'OSError': []},
        loops={0: LoopSpec(unroll=3)}))
    T += shutdown_contracts(reg)
    return T


def shutdown_contracts(reg):
    """Proxy.shutdown: every component that was started is shut down exactly once, acceptors first (nothing
    accepts any more) and listeners last, and the pid / port files that exist are removed (ghost logs
    `downs` of component shutdowns and `removed` of os.remove calls)."""
    import z3
    from pyvc.vals import VSeq, VBool, VOpt, NONE
    fl = dict(reg.classes['Flags']['fields'])
    fl.update({'enable_ssh_tunnel': 'bool', 'threadless': 'bool', 'local_executor': 'int', 'enable_events': 'bool', 'pid_file': ('opt', 'str')})
    reg.klass('Flags', py=None, fields=fl)
    px = dict(reg.classes['Proxy']['fields'])
    comps = {'metrics_subscriber': 0, 'ssh_tunnel_listener': 5, 'acceptors': 1, 'executors': 2, 'event_manager': 3}
    for f in comps:
        px[f] = ('opt', ('opaque', 'Comp_' + f))
    reg.klass('Proxy', py='proxy.proxy:Proxy', fields=px)
    for f, k in comps.items():
        reg.contract('<component>', 'Comp_%s.shutdown' % f, self_cls='Comp_' + f, assumed=True, modifies=[], raises={},
                     ghost_init={'downs': ('seq', 'int')}, ensures=['downs == old(downs) + [%d]' % k],
                     note='component shutdown (joins its processes / threads): assumed to return')
    reg.contract('proxy/core/listener/pool.py', 'ListenerPool.shutdown', self_cls='ListenerPool', assumed=True, modifies=[], raises={},
                 ghost_init={'downs': ('seq', 'int')}, ensures=['downs == old(downs) + [4]'], note='closes every listening socket')
    ex0 = z3.Function('existed', z3.StringSort(), z3.BoolSort())
    reg.specfuns['existed'] = SpecFun('existed', ['str'], 'bool', define=lambda t: ex0(t))

    def unopt(v):
        return v.val if isinstance(v, VOpt) else v      # the code tests the option for None first

    def exists(ex, st, args, kwargs, fr):
        return ex.val(VBool(ex0(unopt(args[0]).t)), st)

    def remove(ex, st, args, kwargs, fr):
        cur = st.ghost['removed']
        st.ghost['removed'] = VSeq(z3.Concat(cur.t, z3.Unit(unopt(args[0]).t)), 'str')
        return ex.val(NONE, st)
    for nm in ('posixpath.exists', 'genericpath.exists', 'os.path.exists'):
        reg.externs[nm] = exists
    for nm in ('os.remove', 'posix.remove'):
        reg.externs[nm] = remove
    REM = "(isnone(self.flags.remote) if False else True)"
    REMOTE = '(self.flags.threadless and self.flags.local_executor == 0)'
    WANT = ("old(downs) + ([0] if not isnone(self.metrics_subscriber) else empty('int')) + ([5] if self.flags.enable_ssh_tunnel else empty('int')) + [1] + "
            "([2] if %s else empty('int')) + ([3] if self.flags.enable_events else empty('int')) + ([4] if not isnone(self.listeners) else empty('int'))" % REMOTE)
    return [reg.contract(
        PX, 'Proxy.shutdown', self_cls='Proxy', ghost_init={'downs': ('seq', 'int'), 'removed': ('seq', 'str')},
        requires=[('started', 'not isnone(self.acceptors)'),
                  ('components-match-the-flags', '(self.flags.enable_ssh_tunnel ==> not isnone(self.ssh_tunnel_listener)) and '
                                                 '(%s ==> not isnone(self.executors)) and (self.flags.enable_events ==> not isnone(self.event_manager))' % REMOTE)],
        modifies=[],
        ensures=[('every-started-component-shut-down-once-acceptors-first-listeners-last', 'downs == %s' % WANT),
                 ('port-file-gone', '(not isnone(self.listeners) and not isnone(self.flags.port_file) and len(self.flags.port_file) > 0 and existed(self.flags.port_file)) ==> '
                                    'contains(removed, self.flags.port_file)'),
                 ('pid-file-gone', '(not isnone(self.listeners) and not isnone(self.flags.pid_file) and len(self.flags.pid_file) > 0 and existed(self.flags.pid_file)) ==> '
                                   'contains(removed, self.flags.pid_file)'),
                 ('nothing-else-removed', "all_str('p', (not contains(removed[len(old(removed)):], p)) or "
                                          "(not isnone(self.flags.port_file) and p == self.flags.port_file) or "
                                          "(not isnone(self.flags.pid_file) and p == self.flags.pid_file))")],
        raises={})]


def bounded_checks(reg, tier, seed):
    """Bounded stand-in / counterexample finder: the REAL ListenerPool.setup and the REAL port
    write-back slice of Proxy.setup (statements extracted from the source on every run), with
    fake listener classes that bind nothing.  Exhaustive over the option grid below."""
    import ast
    import argparse
    import itertools
    import os
    import tempfile
    import types
    from unittest import mock
    import proxy.proxy as pp
    import proxy.core.listener.pool as lp
    from pyvc.engine import REPO
    src = open(os.path.join(REPO, 'proxy/proxy.py')).read()
    tree = ast.parse(src)
    cls = [n for n in tree.body if isinstance(n, ast.ClassDef) and n.name == 'Proxy'][0]
    fn = [n for n in cls.body if isinstance(n, ast.FunctionDef) and n.name == 'setup'][0]
    segs = [ast.get_source_segment(src, s) for s in fn.body]
    i0 = next(i for i, t in enumerate(segs) if 'self.listeners = ListenerPool' in t)
    i1 = next(i for i, t in enumerate(segs) if 'self._write_port_file()' in t)
    mod = ast.Module(body=[ast.FunctionDef(name='slice_', args=ast.arguments(posonlyargs=[], args=[ast.arg('self')],
                                                                             kwonlyargs=[], kw_defaults=[], defaults=[]),
                                           body=fn.body[i0:i1 + 1], decorator_list=[], lineno=1, col_offset=0)],
                     type_ignores=[])
    ast.fix_missing_locations(mod)
    ns = dict(pp.__dict__)
    exec(compile(mod, 'proxy.py:Proxy.setup[slice]', 'exec'), ns)
    counter = itertools.count(40000)

    class FakeTcp(object):
        def __init__(self, flags, hostname, port):
            self.flags, self.hostname, self.port = flags, hostname, port
            self._port = None

        def setup(self):
            self._port = self.port if self.port != 0 else next(counter)

        def shutdown(self):
            pass

    class FakeUnix(object):
        def __init__(self, flags):
            self.flags = flags

        def setup(self):
            pass

        def shutdown(self):
            pass
    bad = []
    n = 0
    tmp = tempfile.mkdtemp(prefix='pyvc-c19-')
    try:
        for unix in (None, os.path.join(tmp, 'sock')):
            for port in (0, 8899):
                for ports in ([], [0], [9001], [0, 0], [9001, 0, 9002], [0, 9003, 0]):
                    pf = os.path.join(tmp, 'ports')
                    flags = argparse.Namespace(unix_socket_path=unix, port=port, ports=list(ports), hostname='127.0.0.1',
                                               hostnames=[], port_file=pf)
                    self = pp.Proxy.__new__(pp.Proxy)
                    self.flags = flags
                    with mock.patch.object(lp, 'TcpSocketListener', FakeTcp), mock.patch.object(lp, 'UnixSocketListener', FakeUnix):
                        try:
                            ns['slice_'](self)
                        except Exception as e:      # noqa
                            bad.append({'unix': bool(unix), 'port': port, 'ports': ports, 'what': 'raised %r' % (e,)})
                            continue
                    n += 1
                    tcp = [l for l in self.listeners.pool if isinstance(l, FakeTcp)]
                    bound = [l._port for l in tcp]
                    primary = [l._port for l in tcp if l.port == port and l is tcp[-1]] if not unix else []
                    lines = [int(x) for x in open(pf).read().split()]
                    case = {'unix': bool(unix), 'port': port, 'ports': ports, 'bound': bound, 'flags.port': flags.port,
                            'flags.ports': list(flags.ports), 'port_file': lines}
                    if not unix:
                        if flags.port != tcp[-1]._port:
                            bad.append(dict(case, what='flags.port is not the port of the listener created for --port'))
                        elif set([flags.port] + list(flags.ports)) != set(bound) or len(flags.ports) != len(bound) - 1:
                            bad.append(dict(case, what='flags.port + flags.ports do not name exactly the bound TCP ports'))
                        elif lines[:1] != [flags.port] or sorted(lines) != sorted(bound):
                            bad.append(dict(case, what='port file does not list exactly the bound ports, primary first'))
                    else:
                        if set(flags.ports) != set(bound) or len(flags.ports) != len(bound):
                            bad.append(dict(case, what='flags.ports do not name exactly the bound TCP ports (unix socket + --ports)'))
                        elif sorted(lines) != sorted(bound):
                            bad.append(dict(case, what='port file does not list exactly the bound ports'))
        # several listening addresses (--hostnames), fixed ports only (with port 0 every address gets its own
        # OS-assigned port and a single reported number is ambiguous): the same ports are bound on every address
        # and must be reported exactly once each, whatever the order in which the listeners were created
        for unix in (None, os.path.join(tmp, 'sock')):
            for ports in ([], [9001], [9001, 9002]):
                pf = os.path.join(tmp, 'ports')
                flags = argparse.Namespace(unix_socket_path=unix, port=8899, ports=list(ports), hostname='127.0.0.1',
                                           hostnames=['127.0.0.2'], port_file=pf)
                self = pp.Proxy.__new__(pp.Proxy)
                self.flags = flags
                with mock.patch.object(lp, 'TcpSocketListener', FakeTcp), mock.patch.object(lp, 'UnixSocketListener', FakeUnix):
                    try:
                        ns['slice_'](self)
                    except Exception as e:      # noqa
                        bad.append({'unix': bool(unix), 'hostnames': 2, 'ports': ports, 'what': 'raised %r' % (e,)})
                        continue
                n += 1
                lines = [int(x) for x in open(pf).read().split()]
                want = ([] if unix else [8899]) + list(ports)
                case = {'unix': bool(unix), 'listening_addresses': 2, 'port': 8899, 'ports': ports, 'flags.port': flags.port,
                        'flags.ports': list(flags.ports), 'port_file': lines}
                got = ([] if unix else [flags.port]) + list(flags.ports)
                if sorted(got) != sorted(want) or (not unix and flags.port != 8899):
                    bad.append(dict(case, what='reported ports %r, bound on every address: %r' % (got, want)))
                elif sorted(lines) != sorted(want) or (not unix and lines[:1] != [8899]):
                    bad.append(dict(case, what='port file %r does not list exactly %r (primary first)' % (lines, want)))
    finally:
        import shutil
        shutil.rmtree(tmp, ignore_errors=True)
    return [{'name': 'native option-grid sweep of ListenerPool.setup + Proxy.setup port write-back slice', 'bounded': True,
             'bound': 'unix socket on/off x --port {0, fixed} x 6 --ports lists (0..3 entries, fixed and OS-assigned); 2 listening addresses x fixed ports x 3 --ports lists',
             'cases': n, 'violations': bad[:3]}]
