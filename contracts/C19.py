"""C19 — listens where configured, reports its ports truthfully, shuts down cleanly (REDUCED).

In reach: the port write-back slice of Proxy.setup, _write_port_file, the ordered shutdown.
ListenerPool.setup is used through a contract that states the creation order read from its
source (additional --ports listeners first, the --port listener last, one listening address).
Out of reach: that a bound endpoint accepts, child processes, behaviour per execution mode."""
import z3
from pyvc.engine import LoopSpec, SpecFun, fresh_name
from pyvc.vals import HObj, VStr, VOpaque, NONE
from . import externs

PX = 'proxy/proxy.py'
ASSUMPTIONS = ['single listening address (as the property requires for OS-assigned ports)',
               'bound TCP ports of one address are pairwise distinct',
               'ListenerPool.setup creation order (--ports first, --port last) is an assumed contract read from its source; '
               'itertools.product / set literals are outside the accepted subset',
               'list(set) order is unspecified in Python; modelled as insertion order (only set equality and "primary first" are claimed)',
               'bounded: at most 3 additional --ports entries (the property\'s own bound)']
POOL = 'self.listeners.pool'


def build(reg):
    externs.add_text(reg)
    reg.specfuns['Listener_attr__port'] = SpecFun('Listener_attr__port', [('opaque', 'Listener')], 'int')
    reg.klass('Flags', py=None, fields={'port': 'int', 'ports': ('list', 'int'), 'unix_socket_path': ('opt', 'str'),
                                        'port_file': ('opt', 'str'), 'hostname': ('opaque', 'IP'),
                                        'hostnames': ('list', ('opaque', 'IP'))})
    reg.klass('ListenerPool', py='proxy.core.listener.pool:ListenerPool',
              fields={'flags': ('obj', 'Flags'), 'pool': ('list', ('opaque', 'Listener'))})
    reg.klass('Proxy', py='proxy.proxy:Proxy', fields={'flags': ('obj', 'Flags'), 'listeners': ('opt', ('obj', 'ListenerPool'))})
    # creation order as read from ListenerPool.setup (assumed): [unix]? ++ [L(p) for p in ports] ++ [L(port)]?
    reg.contract('proxy/core/listener/pool.py', 'ListenerPool.setup', self_cls='ListenerPool', assumed=True,
                 modifies=['self.pool'],
                 ensures=[('tcp-only-shape', 'isnone(self.flags.unix_socket_path) ==> len(self.pool) == len(self.flags.ports) + 1'),
                          ('unix-shape', 'not isnone(self.flags.unix_socket_path) ==> len(self.pool) == len(self.flags.ports) + 1'),
                          ('fixed-ports-kept', "forall('j', 0, len(self.flags.ports), self.flags.ports[j] != 0 ==> "
                                               "Listener_attr__port(self.pool[j + (0 if isnone(self.flags.unix_socket_path) else 1)]) == self.flags.ports[j])"),
                          ('fixed-primary-kept', '(isnone(self.flags.unix_socket_path) and self.flags.port != 0) ==> '
                                                 'Listener_attr__port(self.pool[len(self.flags.ports)]) == self.flags.port'),
                          ('bound-ports-distinct', "forall('a', 0, len(self.pool), forall('b', 0, len(self.pool), a != b ==> "
                                                   "Listener_attr__port(self.pool[a]) != Listener_attr__port(self.pool[b])))")],
                 raises={'OSError': []}, note='bind/listen')
    reg.klass('File', py=None, fields={})

    def open_(ex, st, args, kwargs, fr):
        st.ghost['opened_file'] = args[0]
        return ex.val(st.alloc(HObj('File', {}, None)), st)
    reg.externs['io.open'] = open_
    reg.externs['open'] = open_
    reg.externs['_io.open'] = open_
    reg.contract('<env>', 'File.write', params={'data': 'bytes'}, self_cls='File', assumed=True, modifies=[], result='int',
                 ghost_init={'written': 'bytes'}, ensures=['written == old(written) + data'], raises={})
    T = []
    PRIMARY = 'Listener_attr__port(%s[len(old(self.flags.ports))])' % POOL
    T.append(reg.contract(
        PX, 'Proxy.setup', self_cls='Proxy', ghost_init={'written': 'bytes'},
        body_slice=('self.listeners = ListenerPool', 'self._write_port_file()'),
        requires=[('tcp', 'isnone(self.flags.unix_socket_path)'), ('bounded', 'len(self.flags.ports) <= 3')],
        modifies=['self.listeners', 'self.flags.port', 'self.flags.ports'],
        ensures=[('primary-port-is-the-primary-listener', 'self.flags.port == %s' % PRIMARY),
                 ('every-additional-port-reported',
                  "forall('j', 0, len(old(self.flags.ports)), contains(self.flags.ports, Listener_attr__port(%s[j])))" % POOL),
                 ('nothing-else-reported',
                  "forall('j', 0, len(self.flags.ports), exists('k', 0, len(old(self.flags.ports)), "
                  "self.flags.ports[j] == Listener_attr__port(%s[k])))" % POOL),
                 ('primary-not-repeated', 'not contains(self.flags.ports, self.flags.port)')],
        raises={'OSError': []},
        loops={0: LoopSpec(unroll=3)}))
    return T
