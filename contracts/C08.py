"""C08 — with proxy authentication on, unauthenticated requests reach nothing.

Cred(v, code)  <=>  wsplit(v) has exactly two tokens, lower(token0) == b'basic', token1 == code
(wsplit = bytes.split() on whitespace, lower = bytes.lower(): A-STR)."""
from pyvc.engine import LoopSpec
from . import externs, proxyplugin, handler

AU = 'proxy/http/proxy/auth.py'
PF = 'proxy/http/parser/parser.py'
SV = 'proxy/http/proxy/server.py'
PA = "b'proxy-authorization'"
CRED = ("(len(wsplit(H[%s][1])) == 2 and lower(wsplit(H[%s][1])[0]) == b'basic' and wsplit(H[%s][1])[1] == self.flags.auth_code)"
        % (PA, PA, PA))


def build(reg):
    externs.add_strfuns(reg)
    proxyplugin.add_proxy_plugin(reg, hooks='adversarial')
    fl = dict(reg.classes['Flags']['fields'])
    fl['auth_code'] = ('opt', 'bytes')
    reg.klass('Flags', py=None, fields=fl)
    reg.klass('AuthPlugin', py='proxy.http.proxy.auth:AuthPlugin', fields={'flags': ('obj', 'Flags')})
    T = []
    H0 = 'old(request.headers)'
    T.append(reg.contract(
        AU, 'AuthPlugin.before_upstream_connection', self_cls='AuthPlugin', params={'request': ('obj', 'HttpParser')},
        result=('opt', ('obj', 'HttpParser')), modifies=['request.headers'],
        requires=[('code-nonempty', 'isnone(self.flags.auth_code) or len(self.flags.auth_code) > 0')],
        ensures=[('accepted-only-with-credentials',
                  'not isnone(self.flags.auth_code) ==> (not isnone(%s) and %s.has(%s) and %s)' % (
                      H0, H0, PA, CRED.replace('H', H0))),
                 ('returns-the-request', 'not isnone(result)')],
        raises={'proxy.http.exception.ProxyAuthenticationFailed': [
            ('rejected-only-without-credentials',
             'not isnone(self.flags.auth_code) and not (not isnone(%s) and %s.has(%s) and %s)' % (
                 H0, H0, PA, CRED.replace('H', H0)))]}))
    # header deletion used by the scrub
    T.append(reg.contract(
        PF, 'HttpParser.del_header', self_cls='HttpParser', params={'header': 'bytes'}, modifies=['self.headers'],
        ensures=[('deleted', 'isnone(self.headers) or not self.headers.has(lower(header))'),
                 ('others-kept', "all_bytes('k', k != lower(header) ==> "
                                 "((not isnone(self.headers) and self.headers.has(k)) == (not isnone(old(self.headers)) and old(self.headers).has(k))))")],
        raises={}))
    T += request_path_contracts(reg)
    return T


def request_path_contracts(reg):
    """on_request_complete (first request) and on_client_data (later requests): an authentication
    failure reaches nothing, and Proxy-Authorization never reaches the origin."""
    from pyvc.engine import SpecFun
    reg.specfuns['has_field'] = SpecFun('has_field', ['bytes', 'bytes'], 'bool')
    G = {'connects': 'int', 'bu_raised': 'bool', 'cur_req': 'int'}
    HP = ('obj', 'HttpParser')
    # ghost cur_req: identity of the request object the chain is currently working on.  Every hook must be
    # handed exactly that object (call-site obligation) and what it returns becomes the current one.
    CUR = ('receives-the-request-returned-by-the-previous-hook', 'evid(request) == cur_req')
    NEXT = ('hands-on', 'cur_req == (old(cur_req) if isnone(result) else evid(result))')
    reg.contract('<plugin>', 'ProxyBasePlugin.before_upstream_connection', params={'request': HP},
                 self_cls='ProxyBasePlugin', assumed=True, modifies=[], result=('opt', HP), requires=[CUR],
                 ghost_init={'bu_raised': 'bool', 'cur_req': 'int'}, ensures=['bu_raised == old(bu_raised)', NEXT],
                 raises={'Exception': ['bu_raised']}, note='adversarial user/auth plugin hook; ghost bu_raised marks a rejection')
    reg.contract('<plugin>', 'ProxyBasePlugin.handle_client_request', params={'request': HP},
                 self_cls='ProxyBasePlugin', assumed=True, modifies=[], result=('opt', HP), requires=[CUR],
                 ghost_init={'cur_req': 'int'}, ensures=[NEXT], raises={'Exception': []})
    UP_FRESH = ('not isnone(self.upstream) and len(self.upstream.buffer) == 0 and self.upstream._num_buffer == 0 '
                'and not self.upstream.closed and not isnone(self.upstream._conn)')
    reg.contract(SV, 'HttpProxyPlugin.connect_upstream', self_cls='HttpProxyPlugin', assumed=True,
                 modifies=['self.upstream'], raise_modifies=['self.upstream', 'self.client.buffer', 'self.client._num_buffer'],
                 ghost_init={'connects': 'int'},
                 ensures=['connects == old(connects) + 1', UP_FRESH],
                 raises={'proxy.http.exception.HttpProtocolException': ['connects == old(connects) + 1']},
                 note='opens the upstream connection (C14); ghost connects counts attempts')
    reg.contract(SV, 'HttpProxyPlugin.emit_request_complete', self_cls='HttpProxyPlugin', assumed=True, modifies=[], raises={})
    reg.contract(SV, 'HttpProxyPlugin.intercept', self_cls='HttpProxyPlugin', assumed=True, result='bool',
                 modifies=['self.client.buffer', 'self.client._num_buffer', 'self.client.wire'], raises={},
                 ensures=['self.client._num_buffer == len(self.client.buffer)'], note='TLS interception (C11)')
    reg.contract(PF, 'HttpParser.build', self_cls='HttpParser', assumed=True, result='bytes', modifies=[],
                 params={'disable_headers': ('opt', ('list', 'bytes')), 'for_proxy': 'bool', 'host': ('opt', 'bytes')},
                 ensures=[
                          ('instance-proxy-authorization',
                           "has_field(result, b'proxy-authorization') ==> (not isnone(self.headers) and "
                           "self.headers.has(b'proxy-authorization') and not (not isnone(disable_headers) and "
                           "contains(disable_headers, b'proxy-authorization')))"),
                          ('instance-proxy-connection',
                           "has_field(result, b'proxy-connection') ==> (not isnone(self.headers) and "
                           "self.headers.has(b'proxy-connection') and not (not isnone(disable_headers) and "
                           "contains(disable_headers, b'proxy-connection')))")],
                 raises={'AssertionError': []},
                 note='serialisation contract of the rebuild, instantiated for the two hop-by-hop names: a field is emitted only if present and not disabled (general form: C02)')
    dh = reg.contract(
        PF, 'HttpParser.del_headers', self_cls='HttpParser', params={'headers': ('list', 'bytes')},
        modifies=['self.headers'],
        ensures=[('all-deleted', "forall('j', 0, len(headers), isnone(self.headers) or not self.headers.has(lower(headers[j])))")],
        raises={},
        loops={0: LoopSpec(index='i', modifies=['self.headers'],
                           inv=["forall('j', 0, i, isnone(self.headers) or not self.headers.has(lower(headers[j])))"])})
    PRE = [('client-inv', 'self.client._num_buffer == len(self.client.buffer)'),
           ('first-request', 'isnone(self.upstream)'), ('no-pool', 'not self.flags.enable_conn_pool'),
           ('chain-starts-with-the-parsed-request', 'cur_req == evid(self.request)')]
    NOT_FWD = "not has_field(self.upstream.buffer[len(self.upstream.buffer) - 1], b'proxy-authorization')"
    orc = reg.contract(
        SV, 'HttpProxyPlugin.on_request_complete', self_cls='HttpProxyPlugin', requires=PRE, ghost_init=G,
        result='bool',
        modifies=['self.upstream', 'self.request', 'self.client.buffer', 'self.client._num_buffer', 'self.client.wire'],
        raise_modifies=['self.upstream', 'self.request'],
        ensures=[('credentials-never-forwarded',
                  '(not isnone(self.upstream) and len(self.upstream.buffer) > 0) ==> %s' % NOT_FWD),
                 ('at-most-one-connect', 'connects <= old(connects) + 1'),
                 ('forwarded-only-after-connect', '(not isnone(self.upstream)) ==> connects == old(connects) + 1')],
        raises={'Exception': [('rejection-reaches-nothing',
                               '(bu_raised and not old(bu_raised)) ==> (connects == old(connects) and isnone(self.upstream))')]},
        loops={0: LoopSpec(index='i', modifies=['self.request', 'r', 'do_connect', 'cur_req'],
                           inv=['connects == old(connects)', 'isnone(self.upstream)', 'bu_raised == old(bu_raised)',
                                'cur_req == evid(self.request)']),
               1: LoopSpec(index='i', modifies=['self.request', 'r', 'cur_req'],
                           inv=['connects <= old(connects) + 1', 'bu_raised == old(bu_raised)', 'cur_req == evid(self.request)',
                                'isnone(self.upstream) or (%s)' % UP_FRESH,
                                '(not isnone(self.upstream)) ==> connects == old(connects) + 1'])})
    return [dh, orc]


CROSSCHECK = ['AuthPlugin.before_upstream_connection', 'HttpParser.del_header', 'HttpParser.del_headers']


def bounded_checks(reg, tier, seed):
    """the assumed field-emission contract of HttpParser.build, checked on the real function (bounded)"""
    from . import C02
    return [C02.build_emission_sweep(tier, seed)]


def crosscheck_gens(reg):
    def auth(g, rnd):
        code = b'dXNlcjpwYXNz'
        o = g.obj('AuthPlugin')
        o.flags.auth_code = rnd.choice([code, code, None])
        req = g.obj('HttpParser')
        val = rnd.choice([b'Basic ' + code, b'basic ' + code, b'BASIC  ' + code, b'Basic ' + code + b' x', b'Basic', b'Basic wrong', b'Bearer abc',
                          b'Bearer ' + code, b'Digest username="u"', code, b'', b' ', b'Negotiate', b'Basic\t' + code, b' Basic ' + code + b' '])
        hs = {} if rnd.random() < 0.2 else {b'proxy-authorization': (rnd.choice([b'Proxy-Authorization', b'proxy-authorization']), val)}
        if rnd.random() < 0.5:
            hs[b'host'] = (b'Host', b'h')
        req.headers = rnd.choice([hs, hs, None]) if not hs else hs
        return o, {'request': req}
    return {'AuthPlugin.before_upstream_connection': auth}
