"""C08 — with proxy authentication on, unauthenticated requests reach nothing.

Cred(v, code)  <=>  wsplit(v) has exactly two tokens, lower(token0) == b'basic', token1 == code
(wsplit = bytes.split() on whitespace, lower = bytes.lower(): A-STR)."""
from pyvc.engine import LoopSpec
from . import externs, proxyplugin, handler

AU = 'proxy/http/proxy/auth.py'
PF = 'proxy/http/parser/parser.py'
SV = 'proxy/http/proxy/server.py'
PA = "b'proxy-authorization'"
CRED = ("(len(wsplit(H[%s][1])) == 2 and lower(wsplit(H[%s][1])[0]) == b'basic' and wsplit(H[%s][1])[1] == self.flags.auth_code)"
        % (PA, PA, PA))


def build(reg):
    externs.add_strfuns(reg)
    proxyplugin.add_proxy_plugin(reg, hooks='adversarial')
    fl = dict(reg.classes['Flags']['fields'])
    fl['auth_code'] = ('opt', 'bytes')
    reg.klass('Flags', py=None, fields=fl)
    reg.klass('AuthPlugin', py='proxy.http.proxy.auth:AuthPlugin', fields={'flags': ('obj', 'Flags')})
    T = []
    H0 = 'old(request.headers)'
    T.append(reg.contract(
        AU, 'AuthPlugin.before_upstream_connection', self_cls='AuthPlugin', params={'request': ('obj', 'HttpParser')},
        result=('opt', ('obj', 'HttpParser')), modifies=['request.headers'],
        requires=[('code-nonempty', 'isnone(self.flags.auth_code) or len(self.flags.auth_code) > 0')],
        ensures=[('accepted-only-with-credentials',
                  'not isnone(self.flags.auth_code) ==> (not isnone(%s) and %s.has(%s) and %s)' % (
                      H0, H0, PA, CRED.replace('H', H0))),
                 ('returns-the-request', 'not isnone(result)')],
        raises={'proxy.http.exception.ProxyAuthenticationFailed': [
            ('rejected-only-without-credentials',
             'not isnone(self.flags.auth_code) and not (not isnone(%s) and %s.has(%s) and %s)' % (
                 H0, H0, PA, CRED.replace('H', H0)))]}))
    # header deletion used by the scrub
    T.append(reg.contract(
        PF, 'HttpParser.del_header', self_cls='HttpParser', params={'header': 'bytes'}, modifies=['self.headers'],
        ensures=[('deleted', 'isnone(self.headers) or not self.headers.has(lower(header))'),
                 ('others-kept', "all_bytes('k', k != lower(header) ==> "
                                 "((not isnone(self.headers) and self.headers.has(k)) == (not isnone(old(self.headers)) and old(self.headers).has(k))))")],
        raises={}))
    return T
