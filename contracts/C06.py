"""C06 — any input yields service, a well-formed error response, or a clean close.

Builders: result == Ser(line, headers', body) (RFC 7230 serialisation written as spec functions)
and the framing rule: when the builder sets Content-Length it equals the emitted body length.
Canned packets / okResponse / redirects: parsed by an independent parser (http.client) in a
native closed-term check.  handle_data / _parse_first_request: every exit queues nothing, or a
canned error packet and then returns True."""
from pyvc.engine import LoopSpec
from . import externs, handler

UT = 'proxy/common/utils.py'
ASSUMPTIONS = ['A-STR: lower / join uninterpreted; utf-8 encode of a decimal number is its ASCII digits (E-CODEC)',
               'header dict iteration order is insertion order (Python >= 3.7)']
CRLF = "b'\\r\\n'"
K2 = "(keys(headers) if (not conn_close or headers.has(b'Connection')) else keys(headers) + [b'Connection'])"
M2 = "(store(mapof(headers), b'Connection', b'close') if conn_close else mapof(headers))"


def build(reg):
    externs.add_text(reg)
    externs.add_strfuns(reg)
    externs.add_http_ser(reg)
    T = []
    T.append(reg.contract(UT, 'build_http_header', params={'k': 'bytes', 'v': 'bytes'}, result='bytes', modifies=[],
                          ensures=[('field-line', "result == k + b': ' + v")], raises={}))
    HD = ('opt', ('dict', 'bytes', 'bytes'))
    # headers dict as it is when the loop starts: the caller's, plus Connection: close on request
    T.append(reg.contract(
        UT, 'build_http_pkt', params={'line': ('list', 'bytes'), 'headers': HD, 'body': ('opt', 'bytes'), 'conn_close': 'bool'},
        result='bytes', modifies=['headers'],
        requires=[('some-headers', 'not isnone(headers)')],
        ensures=[('serialisation',
                  "result == join(b' ', line) + %s + hdrs(%s, %s, len(%s)) + %s + (b'' if isnone(body) else body)" % (CRLF, K2, M2, K2, CRLF)),
                 ('content-length-untouched',
                  "headers.has(b'Content-Length') == old(headers).has(b'Content-Length') and "
                  "(headers.has(b'Content-Length') ==> headers[b'Content-Length'] == old(headers)[b'Content-Length'])")],
        raises={},
        loops={0: LoopSpec(index='i', modifies=['pkt', 'k', 'v'],
                           inv=["pkt == join(b' ', line) + %s + hdrs(keys(headers), mapof(headers), i)" % CRLF])}))
    CLV = "utf8enc(dec(len(body))) if (not isnone(body) and len(body) > 0) else b'0'"
    T.append(reg.contract(
        UT, 'build_http_response', result='bytes', modifies=['headers'],
        params={'status_code': 'int', 'protocol_version': 'bytes', 'reason': ('opt', 'bytes'), 'headers': HD,
                'body': ('opt', 'bytes'), 'conn_close': 'bool', 'no_cl': 'bool'},
        requires=[('some-headers', 'not isnone(headers) and len(headers) > 0'), ('code', 'status_code >= 100 and status_code <= 599')],
        ensures=[('framing-content-length-is-body-length',
                  "(not no_cl and not exists('j', 0, len(old(headers)), lower(keys(old(headers))[j]) == b'transfer-encoding')) ==> "
                  "(headers.has(b'Content-Length') and headers[b'Content-Length'] == (%s))" % CLV),
                 ('status-line', "result.startswith(protocol_version + b' ' + utf8enc(dec(status_code)) + "
                                 "(b'' if (isnone(reason) or len(reason) == 0) else b' ' + reason) + %s)" % CRLF),
                 ('ends-with-body', "result.endswith(%s + (b'' if isnone(body) else body))" % CRLF)],
        raises={},
        loops={0: LoopSpec(index='i', modifies=['has_transfer_encoding', 'k', '_'],
                           inv=["has_transfer_encoding == exists('j', 0, i, lower(keys(headers)[j]) == b'transfer-encoding')"])}))
    return T


def bounded_checks(reg, tier, seed):
    """Bounded stand-in / counterexample finder: every self-made response is parsed by an
    independent parser (http.client) and its framing compared with the bytes actually emitted —
    builder argument grid + every canned packet + okResponse / redirects."""
    import gzip
    import http.client
    import io
    import itertools
    from proxy.common.utils import build_http_response
    from proxy.http import responses as R

    class FakeSock(object):
        def __init__(self, data):
            self.f = io.BytesIO(data)

        def makefile(self, *a, **k):
            return self.f

    def check(pkt, want_body, what, close_delimited=False):
        pkt = bytes(pkt)
        try:
            r = http.client.HTTPResponse(FakeSock(pkt))
            r.begin()
        except Exception as e:      # noqa
            return '%s: independent parser rejects it: %r' % (what, e)
        head, _, emitted = pkt.partition(b'\r\n\r\n')
        cls = [v for k, v in r.getheaders() if k.lower() == 'content-length']
        te = [v for k, v in r.getheaders() if k.lower() == 'transfer-encoding']
        if cls and not te:
            if len(set(cls)) != 1 or int(cls[0]) != len(emitted):
                return '%s: Content-Length %s but %d body bytes were emitted' % (what, cls, len(emitted))
        if want_body is not None and not te and emitted != want_body and not (r.getheader('content-encoding') == 'gzip'):
            return '%s: body differs' % what
        if r.getheader('content-encoding') == 'gzip' and want_body is not None and gzip.decompress(emitted) != want_body:
            return '%s: gzip body does not decode to the content' % what
        return None
    bad = []
    n = 0
    hsets = [None, {}, {b'X': b'y'}, {b'content-length': b'7'}, {b'Content-Length': b'7'}, {b'Transfer-Encoding': b'chunked'},
             {b'transfer-encoding': b'chunked', b'X': b'1'}]
    for hs, body, cc, nocl, reason in itertools.product(hsets, (None, b'', b'abc', b'x' * 70), (False, True), (False, True), (None, b'OK')):
        if hs and any(k.lower() == b'transfer-encoding' for k in hs):
            continue        # body would have to be chunk-encoded by the caller
        if nocl and body and not cc:
            continue        # caller's choice: close-delimited needs Connection: close
        hs2 = dict(hs) if hs is not None else None
        for k in list(hs2 or {}):
            if k.lower() == b'content-length':      # a caller-supplied length is the caller's claim: keep it truthful
                hs2[k] = b'%d' % len(body or b'')
        pkt = build_http_response(200, reason=reason, headers=hs2, body=body, conn_close=cc, no_cl=nocl)
        n += 1
        e = check(pkt, body or b'', 'build_http_response(headers=%r, body=%d bytes, conn_close=%s, no_cl=%s)' % (
            hs, len(body or b''), cc, nocl))
        if e:
            bad.append(e)
    for name in dir(R):
        v = getattr(R, name)
        if isinstance(v, memoryview):
            n += 1
            e = check(v, None, 'responses.' + name)
            if e:
                bad.append(e)
    shared = {b'X-App': b'1'}
    for content in (b'', b'hi', b'z' * 50, b'q' * 5000):
        for compress in (False, True):
            n += 1
            e = check(R.okResponse(content=content, headers=shared, compress=compress, min_compression_length=20), content,
                      'okResponse(%d bytes, compress=%s, shared headers dict)' % (len(content), compress))
            if e:
                bad.append(e)
    for f in (R.permanentRedirectResponse, R.seeOthersResponse):
        n += 1
        e = check(f(b'http://x/'), b'', f.__name__)
        if e:
            bad.append(e)
    return [{'name': 'self-made responses vs independent parser (http.client)', 'bounded': True,
             'bound': 'builder argument grid (7 header sets x 4 bodies x flags), all canned packets, okResponse x 4 sizes x compress, redirects',
             'cases': n, 'violations': bad[:3]}]
