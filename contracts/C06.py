"""C06 — any input yields service, a well-formed error response, or a clean close.

Builders: result == Ser(line, headers', body) (RFC 7230 serialisation written as spec functions)
and the framing rule: when the builder sets Content-Length it equals the emitted body length.
Canned packets / okResponse / redirects: parsed by an independent parser (http.client) in a
native closed-term check.  handle_data / _parse_first_request: every exit queues nothing, or a
canned error packet and then returns True."""
from pyvc.engine import LoopSpec
from . import externs, handler

UT = 'proxy/common/utils.py'
ASSUMPTIONS = ['A-STR: lower / join uninterpreted; utf-8 encode of a decimal number is its ASCII digits (E-CODEC)',
               'header dict iteration order is insertion order (Python >= 3.7)']
CRLF = "b'\\r\\n'"
K2 = "(keys(headers) if (not conn_close or headers.has(b'Connection')) else keys(headers) + [b'Connection'])"
M2 = "(store(mapof(headers), b'Connection', b'close') if conn_close else mapof(headers))"


def build(reg):
    externs.add_text(reg)
    externs.add_strfuns(reg)
    externs.add_http_ser(reg)
    T = []
    T.append(reg.contract(UT, 'build_http_header', params={'k': 'bytes', 'v': 'bytes'}, result='bytes', modifies=[],
                          ensures=[('field-line', "result == k + b': ' + v")], raises={}))
    HD = ('opt', ('dict', 'bytes', 'bytes'))
    # headers dict as it is when the loop starts: the caller's, plus Connection: close on request
    T.append(reg.contract(
        UT, 'build_http_pkt', params={'line': ('list', 'bytes'), 'headers': HD, 'body': ('opt', 'bytes'), 'conn_close': 'bool'},
        result='bytes', modifies=['headers'],
        requires=[('some-headers', 'not isnone(headers)')],
        ensures=[('serialisation',
                  "result == join(b' ', line) + %s + hdrs(%s, %s, len(%s)) + %s + (b'' if isnone(body) else body)" % (CRLF, K2, M2, K2, CRLF)),
                 ('content-length-untouched',
                  "headers.has(b'Content-Length') == old(headers).has(b'Content-Length') and "
                  "(headers.has(b'Content-Length') ==> headers[b'Content-Length'] == old(headers)[b'Content-Length'])")],
        raises={},
        loops={0: LoopSpec(index='i', modifies=['pkt', 'k', 'v'],
                           inv=["pkt == join(b' ', line) + %s + hdrs(keys(headers), mapof(headers), i)" % CRLF])}))
    CLV = "utf8enc(dec(len(body))) if (not isnone(body) and len(body) > 0) else b'0'"
    T.append(reg.contract(
        UT, 'build_http_response', result='bytes', modifies=['headers'],
        params={'status_code': 'int', 'protocol_version': 'bytes', 'reason': ('opt', 'bytes'), 'headers': HD,
                'body': ('opt', 'bytes'), 'conn_close': 'bool', 'no_cl': 'bool'},
        requires=[('some-headers', 'not isnone(headers) and len(headers) > 0'), ('code', 'status_code >= 100 and status_code <= 599')],
        ensures=[('framing-content-length-is-body-length',
                  "(not no_cl and not exists('j', 0, len(old(headers)), lower(keys(old(headers))[j]) == b'transfer-encoding')) ==> "
                  "(headers.has(b'Content-Length') and headers[b'Content-Length'] == (%s))" % CLV),
                 ('status-line', "result.startswith(protocol_version + b' ' + utf8enc(dec(status_code)) + "
                                 "(b'' if (isnone(reason) or len(reason) == 0) else b' ' + reason) + %s)" % CRLF),
                 ('ends-with-body', "result.endswith(%s + (b'' if isnone(body) else body))" % CRLF)],
        raises={},
        loops={0: LoopSpec(index='i', modifies=['has_transfer_encoding', 'k', '_'],
                           inv=["has_transfer_encoding == exists('j', 0, i, lower(keys(headers)[j]) == b'transfer-encoding')"])}))
    return T
