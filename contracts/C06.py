"""C06 — any input yields service, a well-formed error response, or a clean close.

Builders: result == Ser(line, headers', body) (RFC 7230 serialisation written as spec functions)
and the framing rule: when the builder sets Content-Length it equals the emitted body length.
Canned packets / okResponse / redirects: parsed by an independent parser (http.client) in a
native closed-term check.  handle_data / _parse_first_request: every exit queues nothing, or a
canned error packet and then returns True."""
from pyvc.engine import LoopSpec
from . import externs, handler

UT = 'proxy/common/utils.py'
ASSUMPTIONS = ['A-STR: lower / join uninterpreted; utf-8 encode of a decimal number is its ASCII digits (E-CODEC)',
               'header dict iteration order is insertion order (Python >= 3.7)']
CRLF = "b'\\r\\n'"
K2 = "(keys(headers) if (not conn_close or headers.has(b'Connection')) else keys(headers) + [b'Connection'])"
M2 = "(store(mapof(headers), b'Connection', b'close') if conn_close else mapof(headers))"


def build(reg):
    externs.add_text(reg)
    externs.add_strfuns(reg)
    externs.add_http_ser(reg)
    T = []
    T.append(reg.contract(UT, 'build_http_header', params={'k': 'bytes', 'v': 'bytes'}, result='bytes', modifies=[],
                          ensures=[('field-line', "result == k + b': ' + v")], raises={}))
    HD = ('opt', ('dict', 'bytes', 'bytes'))
    # headers dict as it is when the loop starts: the caller's, plus Connection: close on request
    T.append(reg.contract(
        UT, 'build_http_pkt', params={'line': ('list', 'bytes'), 'headers': HD, 'body': ('opt', 'bytes'), 'conn_close': 'bool'},
        result='bytes', modifies=['headers'],
        requires=[('some-headers', 'not isnone(headers)')],
        ensures=[('serialisation',
                  "result == join(b' ', line) + %s + hdrs(%s, %s, len(%s)) + %s + (b'' if isnone(body) else body)" % (CRLF, K2, M2, K2, CRLF)),
                 ('content-length-untouched',
                  "headers.has(b'Content-Length') == old(headers).has(b'Content-Length') and "
                  "(headers.has(b'Content-Length') ==> headers[b'Content-Length'] == old(headers)[b'Content-Length'])"),
                 ('only-connection-close-added',
                  "len(old(headers)) > 0 ==> (mapof(headers) == (store(mapof(old(headers)), b'Connection', b'close') if conn_close else mapof(old(headers))) and "
                  "keys(headers) == (keys(old(headers)) if (not conn_close or old(headers).has(b'Connection')) else keys(old(headers)) + [b'Connection']))")],
        raises={},
        loops={0: LoopSpec(index='i', modifies=['pkt', 'k', 'v'],
                           inv=["pkt == join(b' ', line) + %s + hdrs(keys(headers), mapof(headers), i)" % CRLF])}))
    T += handler_contracts(reg)
    OK_ = 'keys(old(headers)), len(old(headers))'
    TE = "anylow(%s, b'transfer-encoding')" % OK_
    HASCL = "anylow(%s, b'content-length')" % OK_
    CLKEY = "lastlow(%s, b'content-length', b'Content-Length')" % OK_      # the field that carries the length
    CLSAME = ("(headers.has(b'Content-Length') == old(headers).has(b'Content-Length') and "
              "(headers.has(b'Content-Length') ==> headers[b'Content-Length'] == old(headers)[b'Content-Length']))")
    CLINV = ["content_length == lastlow(keys(headers), i, b'content-length', b'Content-Length')",
             "anylow(keys(headers), i, b'content-length') ==> headers.has(content_length)",
             "not anylow(keys(headers), i, b'content-length') ==> content_length == b'Content-Length'",
             "lower(content_length) == b'content-length'"]
    # build_http_response leaves its loop with `break` at the first Transfer-Encoding field: the invariant
    # speaks about the whole key sequence (justified by the lemma anylow_intro, instantiated below)
    INV = ["has_transfer_encoding ==> anylow(keys(headers), len(headers), b'transfer-encoding')",
           "not has_transfer_encoding ==> not anylow(keys(headers), i, b'transfer-encoding')"] + CLINV
    ANYLOW_INTRO = ("forall('j', 0, len(headers), lower(keys(headers)[j]) == b'transfer-encoding' ==> "
                    "anylow(keys(headers), len(headers), b'transfer-encoding'))")

    def conn(m):
        return "(store(%s, b'Connection', b'close') if conn_close else %s)" % (m, m)

    def builder_posts(sets_cl, clv, extra_key=None):
        """sets_cl: spec condition under which the builder writes the length field"""
        m1 = "(store(mapof(old(headers)), %s, %s) if (%s) else mapof(old(headers)))" % (CLKEY, clv, sets_cl)
        return [('framing-content-length-is-body-length', "(%s) ==> (headers.has(%s) and headers[%s] == (%s))" % (sets_cl, CLKEY, CLKEY, clv)),
                ('canonical-name-when-none-given',
                 "((%s) and not %s) ==> (headers.has(b'Content-Length') and headers[b'Content-Length'] == (%s))" % (sets_cl, HASCL, clv)),
                ('otherwise-content-length-untouched', "not (%s) ==> %s" % (sets_cl, CLSAME)),
                ('never-a-second-content-length', "%s ==> headers.has(b'Content-Length') == old(headers).has(b'Content-Length')" % HASCL)] + \
               ([('other-fields-intact', "mapof(headers) == %s" % conn(m1))] if extra_key is None else [])

    CLV = "utf8enc(dec(len(body))) if (not isnone(body) and len(body) > 0) else b'0'"
    T.append(reg.contract(
        UT, 'build_http_response', result='bytes', modifies=['headers'],
        params={'status_code': 'int', 'protocol_version': 'bytes', 'reason': ('opt', 'bytes'), 'headers': HD,
                'body': ('opt', 'bytes'), 'conn_close': 'bool', 'no_cl': 'bool'},
        requires=[('some-headers', 'not isnone(headers) and len(headers) > 0'), ('code', 'status_code >= 100 and status_code <= 599')],
        ensures=builder_posts("not no_cl and not %s" % TE, CLV) + [
                 ('exact-bytes',
                  "result == protocol_version + b' ' + utf8enc(dec(status_code)) + (b'' if (isnone(reason) or len(reason) == 0) else b' ' + reason) + "
                  "%s + hdrs(%s, %s, len(%s)) + %s + (b'' if isnone(body) else body)" % (CRLF, K2, M2, K2, CRLF)),],
        raises={}, uses=[ANYLOW_INTRO],
        loops={0: LoopSpec(index='i', modifies=['has_transfer_encoding', 'content_length', 'k', '_'], inv=INV)}))
    INV = ["has_transfer_encoding == anylow(keys(headers), i, b'transfer-encoding')"] + CLINV
    T.append(reg.contract(
        UT, 'build_http_request', result='bytes', modifies=['headers'],
        params={'method': 'bytes', 'url': 'bytes', 'protocol_version': 'bytes', 'content_type': ('opt', 'bytes'), 'headers': HD,
                'body': ('opt', 'bytes'), 'conn_close': 'bool', 'no_ua': 'bool'},
        requires=[('some-headers', 'not isnone(headers) and len(headers) > 0'), ('no-content-type-arg', 'isnone(content_type)')],
        ensures=builder_posts("not isnone(body) and len(body) > 0 and not %s" % TE, "utf8enc(dec(len(body)))", extra_key='User-Agent') + [
                 ('exact-bytes',
                  "result == method + b' ' + url + b' ' + protocol_version + "
                  "%s + hdrs(%s, %s, len(%s)) + %s + (b'' if isnone(body) else body)" % (CRLF, K2, M2, K2, CRLF)),],
        raises={},
        loops={0: LoopSpec(index='i', modifies=['has_transfer_encoding', 'has_user_agent', 'content_length', 'k', '_'], inv=INV)}))
    return T


def lemmas(reg, ex, prop='C06'):
    """anylow_intro: a key with the wanted lower-case form at any index < n makes anylow(K, n, x) true
    (induction on n) -- what the `break` in build_http_response needs."""
    from pyvc import lemma
    return lemma.induction_on_int(ex, prop, 'anylow_intro', {'K': ('list', 'bytes'), 'n': 'int', 'j': 'int', 'x': 'bytes'},
                                  '(0 <= j and j < n and lower(K[j]) == x) ==> anylow(K, n, x)', on='n')


def handler_contracts(reg):
    """HttpProtocolHandler._parse_first_request / handle_data: whatever the parser or the plugin does,
    a rejected request gets exactly the canned 400 packet and the connection is torn down."""
    from pyvc.engine import from_py
    from proxy.http.responses import BAD_REQUEST_RESPONSE_PKT
    from . import proxyplugin
    HH = 'proxy/http/handler.py'
    PF = 'proxy/http/parser/parser.py'
    handler.add_handler(reg)
    had = dict(reg.classes['HttpParser']['fields']) if 'HttpParser' in reg.classes else {}
    had_parse = reg.contracts.get('HttpParser.parse')
    proxyplugin.add_parser_class(reg)
    reg.spec_consts['BAD_REQUEST'] = from_py(BAD_REQUEST_RESPONSE_PKT)
    pf = dict(proxyplugin.PARSER_FIELDS)
    pf.update(had)          # fields another module of the same registry already declared (C15 = C03 + C06)
    pf['_url'] = ('opt', ('obj', 'Url'))
    reg.klass('Url', py='proxy.http.url:Url', fields={
        'scheme': ('opt', 'bytes'), 'username': ('opt', 'bytes'), 'password': ('opt', 'bytes'),
        'hostname': ('opt', 'bytes'), 'port': ('opt', 'int'), 'remainder': ('opt', 'bytes')})
    reg.klass('HttpParser', py='proxy.http.parser.parser:HttpParser', fields=pf)
    H = dict(reg.classes['HttpProtocolHandler']['fields'])
    H['request'] = ('obj', 'HttpParser')
    reg.klass('HttpProtocolHandler', py='proxy.http.handler:HttpProtocolHandler', fields=H)
    # the parser is adversarial here: any state, any exception (ghost parse_raised marks a parse failure)
    reg.contract(PF, 'HttpParser.parse', params={'raw': 'mv', 'allowed_url_schemes': ('opt', ('list', 'bytes'))},
                 self_cls='HttpParser', assumed=True, modifies=['self.' + f for f in pf if f != 'type'],
                 raise_modifies=['self.' + f for f in pf if f != 'type'],
                 ghost_init={'parse_raised': 'bool'}, ensures=['parse_raised == old(parse_raised)'],
                 raises={'Exception': ['parse_raised'], 'proxy.http.exception.HttpProtocolException': ['parse_raised']},
                 note='adversarial: returns in any state or raises anything (its own behaviour: C03)')
    reg.contract(HH, 'HttpProtocolHandler._discover_plugin_klass', params={'protocol': 'int'}, self_cls='HttpProtocolHandler',
                 assumed=True, modifies=[], result=('opt', ('opaque', 'PluginKlass')), raises={})
    reg.contract(HH, 'HttpProtocolHandler._initialize_plugin', params={'klass': ('opaque', 'PluginKlass')},
                 self_cls='HttpProtocolHandler', assumed=True, modifies=[], result=('obj', 'ProtoPlugin'), raises={'Exception': []})
    reg.contract('<plugin>', 'ProtoPlugin.on_request_complete', self_cls='ProtoPlugin', assumed=True, result='bool',
                 modifies=handler.PLUGIN_MOD, raise_modifies=handler.PLUGIN_MOD, ensures=handler.PLUGIN_POST,
                 ghost_init={'parse_raised': 'bool'},
                 raises={'Exception': handler.PLUGIN_POST + ['parse_raised == old(parse_raised)'],
                         'proxy.http.exception.HttpProtocolException': handler.PLUGIN_POST + ['parse_raised == old(parse_raised)']},
                 note='adversarial protocol plugin (TLS-upgrade return value not modelled: result is a bool)')
    c = reg.contracts['ProtoPlugin.on_request_complete']
    c.ensures = c.ensures + [('same-parse-flag', 'parse_raised == old(parse_raised)')]
    reg.contract('<exc>', 'HttpProtocolException.response', params={'request': ('obj', 'HttpParser')},
                 self_cls='HttpProtocolException', assumed=True, modifies=[], result=('opt', 'mv'), raises={})
    PRE, AL = handler.HANDLER_PRE, handler.HANDLER_ALIAS
    BUF, OLD = 'self.work.buffer', 'old(self.work.buffer)'
    WM = ['self.work.buffer', 'self.work._num_buffer', 'self.plugin', 'self.work._conn'] + ['self.request.' + f for f in pf if f != 'type']
    T = []
    T.append(reg.contract(
        HH, 'HttpProtocolHandler._parse_first_request', self_cls='HttpProtocolHandler', params={'data': 'mv'}, result='bool',
        requires=PRE + [('no-plugin-yet', 'isnone(self.plugin)')], ghost_init={'parse_raised': 'bool'},
        modifies=WM, raise_modifies=WM,
        ensures=[('unparsable-cannot-return', 'parse_raised == old(parse_raised)'),
                 ('incomplete-waits-silently', '(not result and isnone(self.plugin)) ==> %s == %s' % (BUF, OLD)),
                 ('rejection-is-one-400-and-teardown', '(isnone(self.plugin) and %s != %s) ==> (result and %s == %s + [BAD_REQUEST])' % (BUF, OLD, BUF, OLD)),
                 ('repr', 'self.work._num_buffer == len(self.work.buffer)')],
        raises={'proxy.http.exception.HttpProtocolException': [
                    ('parse-failure-queues-exactly-one-400', '(parse_raised and not old(parse_raised)) ==> %s == %s + [BAD_REQUEST]' % (BUF, OLD)),
                    ('repr', 'self.work._num_buffer == len(self.work.buffer)')],
                'Exception': [('only-the-plugin-may-fail-otherwise', 'parse_raised == old(parse_raised)'),
                              ('repr', 'self.work._num_buffer == len(self.work.buffer)')]}))
    return T


def bounded_checks(reg, tier, seed):
    """Bounded stand-in / counterexample finder: every self-made response is parsed by an
    independent parser (http.client) and its framing compared with the bytes actually emitted —
    builder argument grid + every canned packet + okResponse / redirects."""
    import gzip
    import http.client
    import io
    import itertools
    from proxy.common.utils import build_http_response
    from proxy.http import responses as R

    class FakeSock(object):
        def __init__(self, data):
            self.f = io.BytesIO(data)

        def makefile(self, *a, **k):
            return self.f

    def check(pkt, want_body, what, close_delimited=False):
        pkt = bytes(pkt)
        try:
            r = http.client.HTTPResponse(FakeSock(pkt))
            r.begin()
        except Exception as e:      # noqa
            return '%s: independent parser rejects it: %r' % (what, e)
        head, _, emitted = pkt.partition(b'\r\n\r\n')
        cls = [v for k, v in r.getheaders() if k.lower() == 'content-length']
        te = [v for k, v in r.getheaders() if k.lower() == 'transfer-encoding']
        if cls and not te:
            if len(set(cls)) != 1 or int(cls[0]) != len(emitted):
                return '%s: Content-Length %s but %d body bytes were emitted' % (what, cls, len(emitted))
        if want_body is not None and not te and emitted != want_body and not (r.getheader('content-encoding') == 'gzip'):
            return '%s: body differs' % what
        if r.getheader('content-encoding') == 'gzip' and want_body is not None and gzip.decompress(emitted) != want_body:
            return '%s: gzip body does not decode to the content' % what
        return None
    bad = []
    n = 0
    hsets = [None, {}, {b'X': b'y'}, {b'content-length': b'7'}, {b'Content-Length': b'7'}, {b'Transfer-Encoding': b'chunked'},
             {b'transfer-encoding': b'chunked', b'X': b'1'}]
    for hs, body, cc, nocl, reason in itertools.product(hsets, (None, b'', b'abc', b'x' * 70), (False, True), (False, True), (None, b'OK')):
        if hs and any(k.lower() == b'transfer-encoding' for k in hs):
            continue        # body would have to be chunk-encoded by the caller
        if nocl and body and not cc:
            continue        # caller's choice: close-delimited needs Connection: close
        hs2 = dict(hs) if hs is not None else None
        for k in list(hs2 or {}):
            if k.lower() == b'content-length':      # a caller-supplied length is the caller's claim: keep it truthful
                hs2[k] = b'%d' % len(body or b'')
        pkt = build_http_response(200, reason=reason, headers=hs2, body=body, conn_close=cc, no_cl=nocl)
        n += 1
        e = check(pkt, body or b'', 'build_http_response(headers=%r, body=%d bytes, conn_close=%s, no_cl=%s)' % (
            hs, len(body or b''), cc, nocl))
        if e:
            bad.append(e)
    for name in dir(R):
        v = getattr(R, name)
        if isinstance(v, memoryview):
            n += 1
            e = check(v, None, 'responses.' + name)
            if e:
                bad.append(e)
    shared = {b'X-App': b'1'}
    for content in (b'', b'hi', b'z' * 50, b'q' * 5000):
        for compress in (False, True):
            n += 1
            e = check(R.okResponse(content=content, headers=shared, compress=compress, min_compression_length=20), content,
                      'okResponse(%d bytes, compress=%s, shared headers dict)' % (len(content), compress))
            if e:
                bad.append(e)
    for f in (R.permanentRedirectResponse, R.seeOthersResponse):
        n += 1
        e = check(f(b'http://x/'), b'', f.__name__)
        if e:
            bad.append(e)
    return [{'name': 'self-made responses vs independent parser (http.client)', 'bounded': True,
             'bound': 'builder argument grid (7 header sets x 4 bodies x flags), all canned packets, okResponse x 4 sizes x compress, redirects',
             'cases': n, 'violations': bad[:3]}, hostile_handler_sweep(tier, seed, check, reg)]


def hostile_handler_sweep(tier, seed, check, reg=None):
    """First sentence of C06 as a bounded stand-in: hostile client bytes (framing-field grid + seeded
    random damage, whole and byte by byte) into a real HttpProtocolHandler with a fake upstream.  Allowed
    outcomes: keep waiting with nothing sent; serve (the request reaches the upstream / a plugin answers);
    or queue a response that the independent parser accepts and ask for teardown.  Never: no return
    (watchdog), an unparsable or partial response of its own making, or a rejection that keeps the
    connection open."""
    import itertools
    from unittest import mock
    from proxy.common.flag import FlagParser
    from proxy.http.handler import HttpProtocolHandler
    from proxy.http.connection import HttpClientConnection
    import proxy.http.proxy.server as srv
    from pyvc.guard import time_limit, NativeTimeout
    from . import parser_sweep
    import tempfile
    bad, n = [], 0
    inputs = [m for t, m in parser_sweep.hostile_inputs(tier, seed) if t == 1]
    first_ok = b'GET http://h.example/ HTTP/1.1\r\nHost: h.example\r\n\r\n'
    static_dir = tempfile.mkdtemp(prefix='pyvc-static-')
    configs = [('forward proxy', FlagParser.initialize(threaded=False), first_ok),
               ('proxy + web server + static files', FlagParser.initialize(threaded=False, enable_web_server=True, enable_static_server=True,
                                                                           static_server_dir=static_dir), first_ok),
               ('web server with a route plugin (keep-alive follow-ups)',
                FlagParser.initialize(threaded=False, enable_web_server=True, plugins=[b'proxy.plugin.WebServerPlugin']),
                b'GET /http-route-example HTTP/1.1\r\nHost: x\r\n\r\n')]
    for (role, flags, first_req), m in itertools.product(configs, inputs):
        for mode in ('whole', 'bytewise', 'later', 'later-bytewise'):
            sent_up = []

            class FakeUp(object):
                def __init__(self, host, port):
                    self.addr, self.closed, self.buffer = (host, port), True, []

                def connect(self, addr=None, source_address=None):
                    self.closed = False
                    self.connection = mock.MagicMock()

                def queue(self, mv):
                    sent_up.append(bytes(mv))

                def has_buffer(self):
                    return False

                def close(self):
                    self.closed = True
            sock = mock.MagicMock()
            sock.fileno.return_value = 11
            h = HttpProtocolHandler(HttpClientConnection(sock, ('127.0.0.1', 9)), flags=flags)
            teardown, raised = False, None
            pieces = [m] if mode in ('whole', 'later') else [m[i:i + 1] for i in range(len(m))]
            try:
                with time_limit(10), mock.patch.object(srv, 'TcpServerConnection', FakeUp):
                    if mode.startswith('later'):        # the hostile bytes are a follow-up request on a keep-alive connection
                        h.handle_data(memoryview(first_req))
                        del h.work.buffer[:]            # what the first request was answered with is not under test
                        h.work._num_buffer = 0
                    for pc in pieces:
                        if h.handle_data(memoryview(pc)):
                            teardown = True
                            break
            except NativeTimeout:
                bad.append({'input': m[:120].decode('latin-1'), 'fed': mode, 'what': 'handle_data does not return within 10 s: one client hangs the worker'})
                continue
            except Exception as e:      # noqa  the worker tears the connection down (C05), without a response
                raised = e
            n += 1
            out = b''.join(bytes(x) for x in h.work.buffer)
            case = {'input': m[:120].decode('latin-1'), 'fed': mode, 'role': role}
            if raised is not None:
                # an exception leaving handle_data ends the work through the worker's cleanup, which does not flush
                # in threadless mode: whatever was queued is never delivered
                bad.append(dict(case, what='%r escapes handle_data: the connection is dropped without a response (%d queued bytes are not flushed)' % (
                    raised, len(out))))
            elif teardown and not out:
                # web server, follow-up position: the request goes to the route chosen by the FIRST request (open known
                # finding F12); a route plugin that does not know the path answers nothing and the connection ends
                f12 = role.startswith('web server') and mode.startswith('later') and reg is not None and \
                    getattr(reg, 'kf', None) is not None and reg.kf.active('F12')
                if not f12:
                    bad.append(dict(case, what='teardown requested although nothing was sent to the client (silent close)'))
            if out:
                e = check(out, None, 'response to hostile input')
                if e:
                    bad.append(dict(case, what=e, emitted=out[:120].decode('latin-1')))
                elif out.startswith(b'HTTP/1.1 4') and not (teardown or raised):
                    bad.append(dict(case, what='an error response was queued but the connection is kept open', emitted=out[:60].decode('latin-1')))
            if len(bad) > 5:
                break
        if len(bad) > 5:
            break
    import shutil
    shutil.rmtree(static_dir, ignore_errors=True)
    return {'name': 'hostile client bytes into the real HttpProtocolHandler (wait / serve / valid error + close; never hang)', 'bounded': True,
            'bound': '%d request inputs (framing-field grid + non-UTF-8 targets + seeded random damage) x 3 roles, first / follow-up position, '
                     'whole and byte by byte, 10 s watchdog' % len(inputs),
            'cases': n, 'violations': bad[:3]}


CROSSCHECK = ['build_http_header', 'build_http_pkt', 'build_http_response', 'build_http_request']
