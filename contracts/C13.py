"""C13 — the static file server never serves anything outside its directory.

inside(q, root) is written here independently of the code:  q == root, or q starts with
root + '/' (root == '/' contains everything).  E-PATH: os.path.normpath resolves dot-segments."""
from . import handler, externs

WB = 'proxy/http/server/web.py'
ASSUMPTIONS = ['E-FS: open(p) opens exactly the file named p or raises OSError; okResponse / mimetypes through contracts',
               'request paths are decoded as UTF-8; %-sequences are ordinary characters (the code does not decode them)']

INSIDE = ("(q == normpath(self.flags.static_server_dir) or normpath(self.flags.static_server_dir) == '/' or "
          "q.startswith(normpath(self.flags.static_server_dir) + '/'))")


def build(reg):
    handler.add_handler(reg)
    externs.add_text(reg)
    externs.add_ospath(reg)
    externs.add_path_ufs(reg)
    flags = dict(reg.classes['Flags']['fields'])
    flags.update({'static_server_dir': 'str', 'min_compression_length': 'int', 'enable_static_server': 'bool'})
    reg.klass('Flags', py=None, fields=flags)
    reg.klass('HttpWebServerPlugin', py='proxy.http.server.web:HttpWebServerPlugin',
              fields={'client': ('obj', 'HttpClientConnection'), 'flags': ('obj', 'Flags')})
    import z3
    from pyvc.vals import VSeq, VStr, VOpt, VTuple, HObj
    from pyvc.engine import fresh_name
    reg.klass('File', py=None, fields={})

    def open_(ex, st, args, kwargs, fr):
        # E-FS: open(p, 'rb') opens exactly the file named p (ghost log `opened`) or raises OSError
        log = st.ghost['opened']
        st.ghost['opened'] = VSeq(z3.Concat(log.t, z3.Unit(args[0].t)), 'str')
        return ex.branch(z3.Bool(fresh_name('open.ok')), st, lambda s: ex.val(s.alloc(HObj('File', {}, None)), s),
                         lambda s: ex.exc(FileNotFoundError, s))
    for nm in ('open', 'io.open', '_io.open'):
        reg.externs[nm] = open_
    reg.contract('<env>', 'File.read', self_cls='File', assumed=True, modifies=[], result='bytes', raises={'OSError': []})

    def guess_type(ex, st, args, kwargs, fr):
        t = VOpt(z3.Bool(fresh_name('mime?none')), VStr(z3.String(fresh_name('mime')), 'str'))
        e = VOpt(z3.Bool(fresh_name('enc?none')), VStr(z3.String(fresh_name('enc')), 'str'))
        return ex.val(VTuple([t, e]), st)
    reg.externs['mimetypes.guess_type'] = guess_type
    reg.contract('proxy/http/responses.py', 'okResponse', assumed=True, result='mv', modifies=[], raises={},
                 params={'content': ('opt', 'bytes'), 'headers': ('opt', ('dict', 'bytes', 'bytes')), 'compress': 'bool',
                         'min_compression_length': 'int', 'conn_close': 'bool'}, note='response builder: C06')
    SSF = reg.contract('proxy/http/server/plugin.py', 'HttpWebServerBasePlugin.serve_static_file',
                       params={'path': 'str', 'min_compression_length': 'int', 'compress': 'bool'}, result='mv',
                       modifies=[], raises={}, ghost_init={'opened': ('seq', 'str')},
                       ensures=[('opens-exactly-the-path-it-was-given', 'opened == old(opened) + [path]')],
                       note='the only file it opens is `path`, as given (no decoding, joining or normalising on the way)')
    from pyvc.engine import SpecFun, from_py
    from proxy.http.responses import NOT_FOUND_RESPONSE_PKT
    reg.spec_consts['NOT_FOUND'] = from_py(NOT_FOUND_RESPONSE_PKT)
    reg.specfuns['before_q'] = SpecFun('before_q', ['str'], 'str', define=lambda t: z3.If(
        z3.IndexOf(t, z3.StringVal('?'), 0) >= 0, z3.SubString(t, 0, z3.IndexOf(t, z3.StringVal('?'), 0)), t))
    LAST = 'opened[len(opened) - 1]'
    T = [reg.contract(
        WB, 'HttpWebServerPlugin._try_static_or_404', self_cls='HttpWebServerPlugin', params={'path': 'bytes'},
        ghost_init={'opened': ('seq', 'str')},
        requires=[('client-inv', 'self.client._num_buffer == len(self.client.buffer)'),
                  ('abs-root', "self.flags.static_server_dir.startswith('/') and not self.flags.static_server_dir.startswith('//')")],
        modifies=['self.client.buffer', 'self.client._num_buffer'],
        ensures=[('log-grows', 'opened[:len(old(opened))] == old(opened) and len(opened) <= len(old(opened)) + 1'),
                 ('confined', 'len(opened) == len(old(opened)) + 1 ==> %s' % INSIDE.replace('q', LAST)),
                 ('exactly-one-reply', 'len(self.client.buffer) == len(old(self.client.buffer)) + 1'),
                 ('outside-is-404', 'len(opened) == len(old(opened)) ==> self.client.buffer == old(self.client.buffer) + [NOT_FOUND]'),
                 ('query-ignored', 'len(opened) == len(old(opened)) + 1 ==> '
                                   '%s == normpath(self.flags.static_server_dir + before_q(utf8dec(path)))' % LAST)],
        raises={'UnicodeDecodeError': [('nothing-opened', 'opened == old(opened)')]}), SSF]
    return T


def bounded_checks(reg, tier, seed):
    """Bounded stand-in with a real directory tree: request targets (plain, dot-segment, percent-encoded,
    query, repeated separators) against the real _try_static_or_404 + serve_static_file; a target may be
    answered 200 only if its literal path -- query removed, dot segments resolved, nothing decoded -- names
    a file inside the root, and then with exactly that file's bytes."""
    import gzip
    import os
    import shutil
    import tempfile
    from unittest import mock
    import posixpath
    from proxy.http.server.web import HttpWebServerPlugin
    from proxy.http.parser import HttpParser
    base = tempfile.mkdtemp(prefix='pyvc-c13-')
    bad, n = [], 0
    try:
        root = os.path.join(base, 'root')
        os.makedirs(os.path.join(root, 'sub'))
        files = {os.path.join(root, 'index.html'): b'<html>in</html>', os.path.join(root, 'sub', 'a.txt'): b'inside a',
                 os.path.join(root, 'sp ace.txt'): b'space', os.path.join(root, '%2e%2e'): b'literal percent name',
                 os.path.join(base, 'secret.txt'): b'OUTSIDE secret', os.path.join(base, 'rootkit'): b'OUTSIDE sibling prefix'}
        for pth, content in files.items():
            with open(pth, 'wb') as f:
                f.write(content)
        targets = [b'/index.html', b'/sub/a.txt', b'/sub/../index.html', b'/../secret.txt', b'/sub/../../secret.txt', b'/..', b'/../rootkit',
                   b'/%2e%2e/secret.txt', b'/..%2fsecret.txt', b'/.%2e/secret.txt', b'/sub/%2e%2e/%2e%2e/secret.txt', b'/%2e%2e', b'/index%2ehtml',
                   b'/index.html?x=../../secret.txt', b'/?/../../secret.txt', b'//index.html', b'/sub//a.txt', b'/./index.html', b'/sub/', b'/',
                   b'/sp ace.txt', b'/sp%20ace.txt', b'/nonexistent', b'/../root/index.html', b'/..//secret.txt', b'/%2E%2E/%2E%2E/etc/passwd']
        for rootspell in (root, root + '/', root + '//', os.path.join(root, 'sub', '..')):
            for t in targets:
                p = HttpWebServerPlugin.__new__(HttpWebServerPlugin)
                p.flags = mock.MagicMock()
                p.flags.static_server_dir = rootspell
                p.flags.min_compression_length = 20
                sent = []
                p.client = mock.MagicMock()
                p.client.queue = lambda mv: sent.append(bytes(mv))
                try:
                    p._try_static_or_404(t)
                except UnicodeDecodeError:
                    continue
                n += 1
                case = {'static_server_dir': rootspell.replace(base, '<tmp>'), 'target': t.decode('latin-1')}
                if len(sent) != 1:
                    bad.append(dict(case, what='%d replies queued' % len(sent)))
                    continue
                r = HttpParser.response(sent[0])
                literal = posixpath.normpath(posixpath.normpath(root) + t.decode().split('?', 1)[0])
                inside = literal == posixpath.normpath(root) or literal.startswith(posixpath.normpath(root) + '/')
                want = files.get(literal) if inside else None
                if r.code == b'200':
                    body = r.body or b''
                    if r.has_header(b'content-encoding') and r.header(b'content-encoding') == b'gzip':
                        body = gzip.decompress(body)
                    if want is None:
                        bad.append(dict(case, what='answered 200 although the literal path %s is %s' % (
                            literal.replace(base, '<tmp>'), 'outside the root' if not inside else 'not a file'), body=body[:40].decode('latin-1')))
                    elif body != want:
                        bad.append(dict(case, what='served bytes differ from the file', body=body[:40].decode('latin-1')))
                elif r.code != b'404':
                    bad.append(dict(case, what='status %r' % r.code))
                elif want is not None:
                    bad.append(dict(case, what='404 for an existing file inside the root'))
    finally:
        shutil.rmtree(base, ignore_errors=True)
    return [{'name': 'static file server on a real directory tree (targets x spellings of --static-server-dir)', 'bounded': True,
             'bound': '26 request targets x 4 spellings of the root', 'cases': n, 'violations': bad[:3]}]
