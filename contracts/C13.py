"""C13 — the static file server never serves anything outside its directory.

inside(q, root) is written here independently of the code:  q == root, or q starts with
root + '/' (root == '/' contains everything).  E-PATH: os.path.normpath resolves dot-segments."""
from . import handler, externs

WB = 'proxy/http/server/web.py'
ASSUMPTIONS = ['serve_static_file is used through a contract (it opens exactly the path it is given; '
               'content-type guessing, gzip and 404-on-OSError are not re-verified here)',
               'request paths are decoded as UTF-8; %-sequences are ordinary characters (the code does not decode them)']

INSIDE = ("(q == normpath(self.flags.static_server_dir) or normpath(self.flags.static_server_dir) == '/' or "
          "q.startswith(normpath(self.flags.static_server_dir) + '/'))")


def build(reg):
    handler.add_handler(reg)
    externs.add_text(reg)
    externs.add_ospath(reg)
    flags = dict(reg.classes['Flags']['fields'])
    flags.update({'static_server_dir': 'str', 'min_compression_length': 'int', 'enable_static_server': 'bool'})
    reg.klass('Flags', py=None, fields=flags)
    reg.klass('HttpWebServerPlugin', py='proxy.http.server.web:HttpWebServerPlugin',
              fields={'client': ('obj', 'HttpClientConnection'), 'flags': ('obj', 'Flags')})
    reg.contract('proxy/http/server/plugin.py', 'HttpWebServerBasePlugin.serve_static_file',
                 params={'path': 'str', 'min_compression_length': 'int', 'compress': 'bool'}, result='mv',
                 assumed=True, modifies=[], raises={}, ghost_init={'opened': ('seq', 'str')},
                 ensures=['opened == old(opened) + [path]'],
                 note='opens exactly `path` (ghost log `opened`); OSError -> 404 inside')
    import z3
    from pyvc.engine import SpecFun, from_py
    from proxy.http.responses import NOT_FOUND_RESPONSE_PKT
    reg.spec_consts['NOT_FOUND'] = from_py(NOT_FOUND_RESPONSE_PKT)
    reg.specfuns['before_q'] = SpecFun('before_q', ['str'], 'str', define=lambda t: z3.If(
        z3.IndexOf(t, z3.StringVal('?'), 0) >= 0, z3.SubString(t, 0, z3.IndexOf(t, z3.StringVal('?'), 0)), t))
    LAST = 'opened[len(opened) - 1]'
    T = [reg.contract(
        WB, 'HttpWebServerPlugin._try_static_or_404', self_cls='HttpWebServerPlugin', params={'path': 'bytes'},
        ghost_init={'opened': ('seq', 'str')},
        requires=[('client-inv', 'self.client._num_buffer == len(self.client.buffer)'),
                  ('abs-root', "self.flags.static_server_dir.startswith('/') and not self.flags.static_server_dir.startswith('//')")],
        modifies=['self.client.buffer', 'self.client._num_buffer'],
        ensures=[('log-grows', 'opened[:len(old(opened))] == old(opened) and len(opened) <= len(old(opened)) + 1'),
                 ('confined', 'len(opened) == len(old(opened)) + 1 ==> %s' % INSIDE.replace('q', LAST)),
                 ('exactly-one-reply', 'len(self.client.buffer) == len(old(self.client.buffer)) + 1'),
                 ('outside-is-404', 'len(opened) == len(old(opened)) ==> self.client.buffer == old(self.client.buffer) + [NOT_FOUND]'),
                 ('query-ignored', 'len(opened) == len(old(opened)) + 1 ==> '
                                   '%s == normpath(self.flags.static_server_dir + before_q(utf8dec(path)))' % LAST)],
        raises={'UnicodeDecodeError': [('nothing-opened', 'opened == old(opened)')]})]
    return T
