"""C12 — reverse proxy routes matching requests to a configured upstream, as documented.

Regex matching is an uninterpreted predicate re_match(pattern, text); random.choice returns some
element.  ghost: connects / conn_host / conn_port (TcpServerConnection.connect), choices (a route
target was chosen in this call), build_host / build_path (arguments of the request rebuild)."""
import z3
from pyvc.engine import LoopSpec, SpecFun, fresh_name
from pyvc.vals import VOpaque, VStr
from . import handler, externs, proxyplugin, C11

RV = 'proxy/http/server/reverse.py'
ASSUMPTIONS = ['dynamic routes are modelled as returning a Url (literal-response / ready-connection answers of '
               'handle_route are not covered)',
               'Url.from_bytes is used through a contract (its own behaviour: C14); HttpParser.build through a contract (C02)',
               'one request per connection: follow-up requests re-enter handle_request with the state left by the '
               'previous one (known finding F11: a live upstream is overwritten)']
G = {'connects': 'int', 'conn_host': 'str', 'conn_port': 'int', 'choices': 'int', 'build_host': ('opt', 'bytes'),
     'build_path': ('opt', 'bytes'), 'builds': 'int'}
G.update(C11.HS)


def build(reg):
    handler.add_handler(reg)
    externs.add_text(reg)
    externs.add_ipaddress(reg)
    C11.add_ssl(reg)
    proxyplugin.add_parser_class(reg)
    fl = dict(reg.classes['Flags']['fields'])
    fl.update({'rewrite_host_header': 'bool', 'ca_file': ('opt', 'str')})
    reg.klass('Flags', py=None, fields=fl)
    reg.klass('Url', py='proxy.http.url:Url', fields={
        'scheme': ('opt', 'bytes'), 'username': ('opt', 'bytes'), 'password': ('opt', 'bytes'),
        'hostname': ('opt', 'bytes'), 'port': ('opt', 'int'), 'remainder': ('opt', 'bytes')})
    reg.klass('ReverseProxy', py='proxy.http.server.reverse:ReverseProxy', fields={
        'client': ('obj', 'HttpClientConnection'), 'upstream': ('opt', ('obj', 'TcpServerConnection')),
        'choice': ('opt', ('obj', 'Url')), 'plugins': ('list', ('opaque', 'RPPlugin')), 'flags': ('obj', 'Flags'),
        '_upstream_proxy_pass': ('opt', 'str')})
    reg.classes['Route'] = dict(py='builtins:object', fields={}, inv=[], ghost={})
    reg.specfuns['Route_item0'] = SpecFun('Route_item0', [('opaque', 'Route')], 'str')
    reg.specfuns['Route_item1'] = SpecFun('Route_item1', [('opaque', 'Route')], ('list', 'bytes'))
    reg.specfuns['Route_str'] = SpecFun('Route_str', [('opaque', 'Route')], 'str')
    reg.specfuns['pat_of'] = SpecFun('pat_of', ['str'], ('opaque', 'Pattern'))
    reg.specfuns['re_match'] = SpecFun('re_match', [('opaque', 'Pattern'), 'str'], 'bool')

    def re_compile(ex, st, args, kwargs, fr):
        a = args[0]
        t = reg.specfuns['Route_str'].apply(a.ident) if isinstance(a, VOpaque) else a.t
        return ex.val(VOpaque('Pattern', reg.specfuns['pat_of'].apply(t)), st)
    reg.externs['re.compile'] = re_compile

    def choice(ex, st, args, kwargs, fr):
        from pyvc.engine import as_seq
        s, et = as_seq(args[0], st)
        x = z3.String(fresh_name('choice'))
        st.assume(z3.Contains(s, z3.Unit(x)))
        return ex.val(VStr(x, et), st)
    reg.externs['random.Random.choice'] = choice
    reg.externs['random.choice'] = choice
    reg.contract('<env>', 'Pattern.match', params={'s': 'str'}, self_cls='Pattern', assumed=True, modifies=[],
                 result=('opt', ('opaque', 'Match')), ensures=['isnone(result) == (not re_match(self, s))'], raises={})
    HP = ('obj', 'HttpParser')
    adv = {'Exception': []}
    reg.contract('<plugin>', 'RPPlugin.before_routing', params={'request': HP}, self_cls='RPPlugin', assumed=True,
                 modifies=[], result=('opt', HP), raises=adv, ensures=['isnone(result) or not isnone(result.path)'])
    reg.contract('<plugin>', 'RPPlugin.routes', self_cls='RPPlugin', assumed=True, modifies=[],
                 result=('list', ('opaque', 'Route')), raises={})
    reg.contract('<plugin>', 'RPPlugin.handle_route', params={'request': HP, 'pattern': ('opaque', 'Pattern')},
                 self_cls='RPPlugin', assumed=True, modifies=[], result=('obj', 'Url'), ghost_init={'choices': 'int'},
                 ensures=['choices == old(choices) + 1'], raises=adv)
    reg.contract('proxy/http/url.py', 'Url.from_bytes', params={'raw': 'bytes', 'allowed_url_schemes': ('opt', ('list', 'bytes'))},
                 assumed=True, result=('obj', 'Url'), modifies=[], ghost_init={'choices': 'int'},
                 ensures=['choices == old(choices) + 1'],
                 raises={'proxy.http.exception.HttpProtocolException': []}, note='C14')
    reg.contract('proxy/core/connection/server.py', 'TcpServerConnection.connect', self_cls='TcpServerConnection',
                 params={'addr': ('opt', ('opaque', 'Addr')), 'source_address': ('opt', ('opaque', 'Addr'))},
                 assumed=True, modifies=['self._conn', 'self.closed'],
                 ghost_init={'connects': 'int', 'conn_host': 'str', 'conn_port': 'int'},
                 ensures=['connects == old(connects) + 1', 'conn_host == self.addr[0]', 'conn_port == self.addr[1]',
                          'not isnone(self._conn) and not self.closed and not isinst_SSLSocket(self._conn)'],
                 raises={'ConnectionRefusedError': ['connects == old(connects) + 1'], 'OSError': ['connects == old(connects) + 1']},
                 note='opens the socket to self.addr (C14: new_socket_connection)')
    reg.contract('proxy/http/parser/parser.py', 'HttpParser.build', self_cls='HttpParser', assumed=True, result='bytes',
                 params={'disable_headers': ('opt', ('list', 'bytes')), 'for_proxy': 'bool', 'host': ('opt', 'bytes')},
                 modifies=[], ghost_init={'build_host': ('opt', 'bytes'), 'build_path': ('opt', 'bytes'), 'builds': 'int'},
                 ensures=['build_host == host', 'build_path == self.path', 'builds == old(builds) + 1'],
                 raises={'AssertionError': []}, note='C02')
    CH = 'self.choice'
    PORT = ("(%s.port if not isnone(%s.port) and %s.port != 0 else (80 if %s.scheme == b'http' else 443))" % (CH, CH, CH, CH))
    T = [reg.contract(
        RV, 'ReverseProxy.handle_request', self_cls='ReverseProxy', params={'request': HP}, ghost_init=G,
        requires=[('client-inv', 'self.client._num_buffer == len(self.client.buffer)'),
                  ('parsed-request', 'not isnone(request.path)')],
        modifies=['self.upstream', 'self.choice', 'self._upstream_proxy_pass', 'request.path',
                  'self.client.buffer', 'self.client._num_buffer'],
        raise_modifies=['self.upstream', 'self.choice', 'self._upstream_proxy_pass', 'request.path'],
        ensures=[('connect-only-for-a-route-chosen-now', 'connects > old(connects) ==> choices > old(choices)'),
                 ('at-most-one-connect', 'connects <= old(connects) + 1'),
                 ('no-route-nothing-forwarded', 'connects == old(connects) ==> builds == old(builds)'),
                 ('target-host', 'connects > old(connects) ==> (not isnone(%s) and not isnone(%s.hostname) and '
                                 'conn_host == utf8dec(%s.hostname))' % (CH, CH, CH)),
                 ('target-port-defaults-by-scheme', 'connects > old(connects) ==> conn_port == %s' % PORT),
                 ('tls-iff-https', "connects > old(connects) ==> ((handshakes > old(handshakes)) == (%s.scheme == b'https'))" % CH),
                 ('path-replaced', 'builds > old(builds) ==> build_path == %s.remainder' % CH),
                 ('host-rewritten-iff-option', 'builds > old(builds) ==> (isnone(build_host) == (not self.flags.rewrite_host_header))'),
                 ('host-value', "(builds > old(builds) and self.flags.rewrite_host_header) ==> build_host == "
                                "%s.hostname + (b'' if isnone(%s.port) else b':' + utf8enc(dec(%s.port)))" % (CH, CH, CH)),
                 ('forwarded-exactly-once', 'builds <= old(builds) + 1 and (connects > old(connects) ==> '
                                            '(builds == old(builds) + 1 and len(self.upstream.buffer) == 1))')],
        raises={'Exception': [('connect-only-for-a-route-chosen-now', 'connects > old(connects) ==> choices > old(choices)')]},
        loops={0: LoopSpec(index='i', modifies=['request', 'r'], inv=['connects == old(connects)', 'builds == old(builds)', 'not isnone(request.path)',
                                                                        'choices == old(choices)', 'handshakes == old(handshakes)']),
               1: LoopSpec(index='i', modifies=['needs_upstream', 'self.choice', 'self._upstream_proxy_pass', 'pattern', 'choice', 'route', 'choices'],
                           inv=['connects == old(connects)', 'builds == old(builds)', 'handshakes == old(handshakes)',
                                'needs_upstream ==> (choices > old(choices) and not isnone(self.choice))', 'choices >= old(choices)']),
               2: LoopSpec(index='j', modifies=['needs_upstream', 'self.choice', 'self._upstream_proxy_pass', 'pattern', 'choice', 'choices'],
                           inv=['connects == old(connects)', 'builds == old(builds)', 'handshakes == old(handshakes)',
                                'needs_upstream ==> (choices > old(choices) and not isnone(self.choice))', 'choices >= old(choices)'])})]
    reg.specfuns['dec'] = SpecFun('dec', ['int'], 'str', define=lambda n: z3.If(n >= 0, z3.IntToStr(n), z3.Concat(z3.StringVal('-'), z3.IntToStr(-n))))
    return T


def bounded_checks(reg, tier, seed):
    from . import C02
    """Bounded stand-in / counterexample finder on the real ReverseProxy.handle_request with fake
    plugins and a recording upstream: route tables x upstream URL shapes x Host-rewrite option x
    pre-states (fresh connection, or state left by an earlier forwarded request)."""
    import itertools
    from unittest import mock
    import proxy.http.server.reverse as rv
    from proxy.http.parser import HttpParser
    from proxy.http.url import Url
    bad = []
    n = 0
    urls = [b'http://up.example/base', b'http://up.example:8080/base', b'http://up.example', b'https://sec.example/x',
            b'https://sec.example:8443']
    for url, rewrite, stale, match, hostname in itertools.product(urls, (False, True), (False, True), (False, True), (b'Host', b'host', b'HOST')):
        calls = {'connect': [], 'wrap': 0, 'queued': []}

        class FakeUp(object):
            def __init__(self, host, port):
                self.addr = (host, port)
                self.closed = True

            def connect(self):
                calls['connect'].append(self.addr)
                self.closed = False

            def wrap(self, *a, **k):
                calls['wrap'] += 1

            def queue(self, mv):
                calls['queued'].append(bytes(mv))

        class Plugin(object):
            def before_routing(self, request):
                return request

            def routes(self):
                return [(r'/api/(.*)$', [url])]
        rp = rv.ReverseProxy.__new__(rv.ReverseProxy)
        rp.flags = mock.MagicMock()
        rp.flags.rewrite_host_header = rewrite
        rp.flags.ca_file = None
        rp.client = mock.MagicMock()
        rp.plugins = [Plugin()]
        rp.upstream = None
        rp.choice = Url.from_bytes(b'http://stale.example:1234/old') if stale else None
        rp._upstream_proxy_pass = None
        path = b'/api/thing' if match else b'/other'
        req = HttpParser.request(b'POST ' + path + b' HTTP/1.1\r\n' + hostname + b': front.example\r\nX-K: v\r\nContent-Length: 3\r\n\r\nabc')
        case = {'upstream_url': url.decode(), 'rewrite_host': rewrite, 'state_left_by_earlier_request': stale, 'path': path.decode(),
                'host_field_spelling': hostname.decode()}
        import proxy.core.base.tcp_upstream as tu
        with mock.patch.object(tu, 'TcpServerConnection', FakeUp):
            try:
                rp.handle_request(req)
            except Exception as e:      # noqa
                bad.append(dict(case, what='raised %r' % (e,)))
                continue
        n += 1
        u = Url.from_bytes(url)
        if not match:
            if calls['connect'] or calls['queued']:
                bad.append(dict(case, what='no route matches but an outbound connection was made to %r' % (calls['connect'],)))
            continue
        want = (u.hostname.decode(), u.port or (80 if u.scheme == b'http' else 443))
        if calls['connect'] != [want]:
            bad.append(dict(case, what='connected to %r, expected %r' % (calls['connect'], want)))
            continue
        if (calls['wrap'] == 1) != (u.scheme == b'https'):
            bad.append(dict(case, what='TLS wrap count %d for scheme %s' % (calls['wrap'], u.scheme.decode())))
            continue
        if len(calls['queued']) != 1:
            bad.append(dict(case, what='%d requests forwarded' % len(calls['queued'])))
            continue
        fwd = HttpParser.request(calls['queued'][0])
        # the header set as the upstream sees it (independent of proxy.py's own parser): exactly one Host field
        head = calls['queued'][0].split(b'\r\n\r\n', 1)[0].split(b'\r\n')[1:]
        names = sorted(l.split(b':', 1)[0].strip().lower() for l in head)
        if names.count(b'host') != 1 or names.count(b'x-k') != 1 or names.count(b'content-length') != 1:
            bad.append(dict(case, what='forwarded header fields are %r' % (names,), forwarded=calls['queued'][0][:160].decode('latin-1')))
            continue
        host_want = (u.hostname + (b':%d' % u.port if u.port else b'')) if rewrite else b'front.example'
        if fwd.method != b'POST' or fwd.body != b'abc' or fwd.header(b'x-k') != b'v' or \
                (fwd.path or b'/') != (u.remainder or b'/') or fwd.header(b'host') != host_want:
            bad.append(dict(case, what='forwarded request differs', forwarded=calls['queued'][0][:120].decode('latin-1')))
    return [{'name': 'native sweep of ReverseProxy.handle_request (routes x URL shapes x Host rewrite x earlier-request state)',
             'bounded': True, 'bound': '5 upstream URL shapes x 2 x 2 x 2 x 3 spellings of the Host field name', 'cases': n, 'violations': bad[:3]},
            C02.build_emission_sweep(tier, seed)]
