"""C18 — event bus: exactly once, in order, to every current subscriber.

ghost sent_ch / sent_ev: the global delivery log (channel identity, message identity), extended
only by E-CHAN (Connection.send delivers exactly once, or raises BrokenPipeError/EOFError and
delivers nothing)."""
import z3
from pyvc.engine import LoopSpec, SpecFun

DP = 'proxy/core/event/dispatcher.py'
G = {'sent_ch': ('seq', 'int'), 'sent_ev': ('seq', 'int'), 'closed_ch': ('seq', 'int')}
ASSUMPTIONS = ['E-CHAN: Connection.send(x) delivers x exactly once, in order, or raises BrokenPipeError / EOFError and delivers nothing',
               'E-QUEUE: the event queue is FIFO for its single consumer (cross-process arrival order is not modelled)',
               'subscriber ids of one dispatcher map to distinct channel objects']
SUB = 'self.subscribers'


def build(reg):
    reg.klass('EventDispatcher', py='proxy.core.event.dispatcher:EventDispatcher',
              fields={'subscribers': ('dict', 'str', ('opaque', 'Channel'))})
    reg.specfuns['Event_key_event_name'] = SpecFun('Event_key_event_name', [('opaque', 'Event')], 'int')
    reg.specfuns['Event_key_event_payload'] = SpecFun('Event_key_event_payload', [('opaque', 'Event')], ('opaque', 'Payload'))
    reg.specfuns['Payload_key_sub_id'] = SpecFun('Payload_key_sub_id', [('opaque', 'Payload')], 'str')
    reg.specfuns['Payload_key_conn'] = SpecFun('Payload_key_conn', [('opaque', 'Payload')], ('opaque', 'Channel'))
    rep = SpecFun('rep', ['int', 'int'], ('list', 'int'))
    E = z3.Empty(z3.SeqSort(z3.IntSort()))
    def rep_unfold(v, n):
        ax = []
        for d in range(4):
            m = n - d
            ax += [rep.decl(v, m) == z3.If(m <= 0, E, z3.Concat(rep.decl(v, m - 1), z3.Unit(v))),
                   z3.Length(rep.decl(v, m)) == z3.If(m <= 0, 0, m)]
        return ax
    rep.unfold = rep_unfold
    reg.specfuns['rep'] = rep
    reg.contract('<env>', 'Channel.send', params={'obj': ('any',)}, self_cls='Channel', assumed=True, modifies=[],
                 ghost_init={'sent_ch': ('seq', 'int'), 'sent_ev': ('seq', 'int')},
                 ensures=['sent_ch == old(sent_ch) + [self]', 'sent_ev == old(sent_ev) + [evid(obj)]'],
                 raises={'BrokenPipeError': ['sent_ch == old(sent_ch) and sent_ev == old(sent_ev)']},
                 note='E-CHAN')
    reg.contract('<env>', 'Channel.close', self_cls='Channel', assumed=True, modifies=[],
                 ghost_init={'closed_ch': ('seq', 'int')}, ensures=['closed_ch == old(closed_ch) + [self]'],
                 raises={'Exception': ['closed_ch == old(closed_ch)']})
    T = []
    T.append(reg.contract(
        DP, 'EventDispatcher._send', self_cls='EventDispatcher', params={'sub_id': 'str', 'payload': ('dict', 'str', 'int')},
        ghost_init=G, result='bool', requires=[('subscribed', '%s.has(sub_id)' % SUB)], modifies=[],
        ensures=[('delivered-once-iff-true', 'result == (sent_ch == old(sent_ch) + [%s[sub_id]] and sent_ev == old(sent_ev) + [evid(payload)])' % SUB),
                 ('nothing-when-false', 'not result ==> (sent_ch == old(sent_ch) and sent_ev == old(sent_ev))')],
        raises={}))
    T.append(reg.contract(
        DP, 'EventDispatcher._close', self_cls='EventDispatcher', params={'sub_id': 'str'}, ghost_init=G,
        requires=[('subscribed', '%s.has(sub_id)' % SUB)], modifies=[],
        ensures=[('nothing-sent', 'sent_ch == old(sent_ch) and sent_ev == old(sent_ev)')], raises={}))
    T.append(reg.contract(
        DP, 'EventDispatcher._close_and_delete', self_cls='EventDispatcher', params={'sub_id': 'str'}, ghost_init=G,
        requires=[('subscribed', '%s.has(sub_id)' % SUB)], modifies=['self.subscribers'],
        ensures=[('dropped', 'not %s.has(sub_id)' % SUB),
                 ('others-kept', "all_str('k', k != sub_id ==> (%s.has(k) == old(%s).has(k)))" % (SUB, SUB)),
                 ('nothing-sent', 'sent_ch == old(sent_ch) and sent_ev == old(sent_ev)')],
        raises={}))
    N = 'len(old(%s))' % SUB
    T.append(reg.contract(
        DP, 'EventDispatcher._broadcast', self_cls='EventDispatcher', params={'ev': ('opaque', 'Event')}, ghost_init=G,
        modifies=['self.subscribers'], requires=[('log-shape', 'len(sent_ch) == len(sent_ev)'),
                                                 ('bounded-subscribers', 'len(%s) <= 3' % SUB)],
        ensures=[('only-this-event-appended', 'sent_ev == old(sent_ev) + rep(evid(ev), len(sent_ev) - len(old(sent_ev)))'),
                 ('log-extended', 'sent_ch[:len(old(sent_ch))] == old(sent_ch) and len(sent_ch) == len(sent_ev)'),
                 ('at-most-once-per-subscriber', 'len(sent_ev) - len(old(sent_ev)) <= %s' % N),
                 ('delivered-or-dropped', 'len(sent_ev) - len(old(sent_ev)) + (%s - len(%s)) >= %s' % (N, SUB, N)),
                 ('no-new-subscribers', "all_str('k', %s.has(k) ==> old(%s).has(k))" % (SUB, SUB))],
        raises={},
        # bounded: at most 3 subscribers (the property's own bound); message contents, ids and the
        # outcome of every send stay symbolic
        loops={0: LoopSpec(unroll=3),
               1: LoopSpec(unroll=3)}))
    from proxy.core.event import eventNames
    ACK_S = 1000000 + int(eventNames.SUBSCRIBED)
    ACK_U = 1000000 + int(eventNames.UNSUBSCRIBED)
    NAME = 'Event_key_event_name(ev)'
    SID = 'Payload_key_sub_id(Event_key_event_payload(ev))'
    CONN = 'Payload_key_conn(Event_key_event_payload(ev))'
    T.append(reg.contract(
        DP, 'EventDispatcher.handle_event', self_cls='EventDispatcher', params={'ev': ('opaque', 'Event')}, ghost_init=G,
        requires=[('log-shape', 'len(sent_ch) == len(sent_ev)'), ('bounded-subscribers', 'len(%s) <= 3' % SUB)],
        modifies=['self.subscribers'],
        ensures=[('subscribe-acked-or-dropped',
                  '%s == %d ==> ((%s.has(%s) and %s[%s] == %s and sent_ch == old(sent_ch) + [%s] and sent_ev == old(sent_ev) + [%d]) or '
                  '(not %s.has(%s) and sent_ch == old(sent_ch) and sent_ev == old(sent_ev)))' % (
                      NAME, int(eventNames.SUBSCRIBE), SUB, SID, SUB, SID, CONN, CONN, ACK_S, SUB, SID)),
                 ('unsubscribe-removes', '%s == %d ==> not %s.has(%s)' % (NAME, int(eventNames.UNSUBSCRIBE), SUB, SID)),
                 ('unsubscribe-ack-at-most-once',
                  '%s == %d ==> ((sent_ev == old(sent_ev) and sent_ch == old(sent_ch)) or '
                  '(old(%s).has(%s) and sent_ev == old(sent_ev) + [%d] and sent_ch == old(sent_ch) + [old(%s)[%s]]))' % (
                      NAME, int(eventNames.UNSUBSCRIBE), SUB, SID, ACK_U, SUB, SID)),
                 ('unknown-unsubscribe-is-a-noop', '(%s == %d and not old(%s).has(%s)) ==> unchanged(%s)' % (
                     NAME, int(eventNames.UNSUBSCRIBE), SUB, SID, SUB)),
                 ('publish-fans-out-this-event-only',
                  '(%s != %d and %s != %d) ==> sent_ev == old(sent_ev) + rep(evid(ev), len(sent_ev) - len(old(sent_ev)))' % (
                      NAME, int(eventNames.SUBSCRIBE), NAME, int(eventNames.UNSUBSCRIBE)))],
        raises={}))
    return T
