"""C18 — event bus: exactly once, in order, to every current subscriber.

ghost sent_ch / sent_ev: the global delivery log (channel identity, message identity), extended
only by E-CHAN (Connection.send delivers exactly once, or raises BrokenPipeError/EOFError and
delivers nothing)."""
import z3
from pyvc.engine import LoopSpec, SpecFun

DP = 'proxy/core/event/dispatcher.py'
G = {'sent_ch': ('seq', 'int'), 'sent_ev': ('seq', 'int'), 'closed_ch': ('seq', 'int')}
ASSUMPTIONS = ['E-CHAN: Connection.send(x) delivers x exactly once, in order, or raises BrokenPipeError / EOFError and delivers nothing',
               'E-QUEUE: the event queue is FIFO for its single consumer (cross-process arrival order is not modelled)',
               'subscriber ids of one dispatcher map to distinct channel objects']
SUB = 'self.subscribers'


def build(reg):
    reg.klass('EventDispatcher', py='proxy.core.event.dispatcher:EventDispatcher',
              fields={'subscribers': ('dict', 'str', ('opaque', 'Channel'))})
    reg.specfuns['Event_key_event_name'] = SpecFun('Event_key_event_name', [('opaque', 'Event')], 'int')
    reg.specfuns['Event_key_event_payload'] = SpecFun('Event_key_event_payload', [('opaque', 'Event')], ('opaque', 'Payload'))
    reg.specfuns['Payload_key_sub_id'] = SpecFun('Payload_key_sub_id', [('opaque', 'Payload')], 'str')
    reg.specfuns['Payload_key_conn'] = SpecFun('Payload_key_conn', [('opaque', 'Payload')], ('opaque', 'Channel'))
    rep = SpecFun('rep', ['int', 'int'], ('list', 'int'))
    E = z3.Empty(z3.SeqSort(z3.IntSort()))
    def rep_unfold(v, n):
        ax = []
        for d in range(4):
            m = n - d
            ax += [rep.decl(v, m) == z3.If(m <= 0, E, z3.Concat(rep.decl(v, m - 1), z3.Unit(v))),
                   z3.Length(rep.decl(v, m)) == z3.If(m <= 0, 0, m)]
        return ax
    rep.unfold = rep_unfold
    reg.specfuns['rep'] = rep
    reg.contract('<env>', 'Channel.send', params={'obj': ('any',)}, self_cls='Channel', assumed=True, modifies=[],
                 ghost_init={'sent_ch': ('seq', 'int'), 'sent_ev': ('seq', 'int')},
                 ensures=['sent_ch == old(sent_ch) + [self]', 'sent_ev == old(sent_ev) + [evid(obj)]'],
                 raises={'BrokenPipeError': ['sent_ch == old(sent_ch) and sent_ev == old(sent_ev)']},
                 note='E-CHAN')
    reg.contract('<env>', 'Channel.close', self_cls='Channel', assumed=True, modifies=[],
                 ghost_init={'closed_ch': ('seq', 'int')}, ensures=['closed_ch == old(closed_ch) + [self]'],
                 raises={'Exception': ['closed_ch == old(closed_ch)']})
    T = []
    T.append(reg.contract(
        DP, 'EventDispatcher._send', self_cls='EventDispatcher', params={'sub_id': 'str', 'payload': ('dict', 'str', 'int')},
        ghost_init=G, result='bool', requires=[('subscribed', '%s.has(sub_id)' % SUB)], modifies=[],
        ensures=[('delivered-once-iff-true', 'result == (sent_ch == old(sent_ch) + [%s[sub_id]] and sent_ev == old(sent_ev) + [evid(payload)])' % SUB),
                 ('nothing-when-false', 'not result ==> (sent_ch == old(sent_ch) and sent_ev == old(sent_ev))')],
        raises={}))
    T.append(reg.contract(
        DP, 'EventDispatcher._close', self_cls='EventDispatcher', params={'sub_id': 'str'}, ghost_init=G,
        requires=[('subscribed', '%s.has(sub_id)' % SUB)], modifies=[],
        ensures=[('nothing-sent', 'sent_ch == old(sent_ch) and sent_ev == old(sent_ev)')], raises={}))
    T.append(reg.contract(
        DP, 'EventDispatcher._close_and_delete', self_cls='EventDispatcher', params={'sub_id': 'str'}, ghost_init=G,
        requires=[('subscribed', '%s.has(sub_id)' % SUB)], modifies=['self.subscribers'],
        ensures=[('dropped', 'not %s.has(sub_id)' % SUB),
                 ('others-kept', "all_str('k', k != sub_id ==> (%s.has(k) == old(%s).has(k)))" % (SUB, SUB)),
                 ('nothing-sent', 'sent_ch == old(sent_ch) and sent_ev == old(sent_ev)')],
        raises={}))
    N = 'len(old(%s))' % SUB
    T.append(reg.contract(
        DP, 'EventDispatcher._broadcast', self_cls='EventDispatcher', params={'ev': ('opaque', 'Event')}, ghost_init=G,
        modifies=['self.subscribers'], requires=[('log-shape', 'len(sent_ch) == len(sent_ev)'),
                                                 ('bounded-subscribers', 'len(%s) <= 3' % SUB)],
        ensures=[('only-this-event-appended', 'sent_ev == old(sent_ev) + rep(evid(ev), len(sent_ev) - len(old(sent_ev)))'),
                 ('log-extended', 'sent_ch[:len(old(sent_ch))] == old(sent_ch) and len(sent_ch) == len(sent_ev)'),
                 ('at-most-once-per-subscriber', 'len(sent_ev) - len(old(sent_ev)) <= %s' % N),
                 ('delivered-or-dropped', 'len(sent_ev) - len(old(sent_ev)) + (%s - len(%s)) >= %s' % (N, SUB, N)),
                 ('no-new-subscribers', "all_str('k', %s.has(k) ==> old(%s).has(k))" % (SUB, SUB))],
        raises={},
        # bounded: at most 3 subscribers (the property's own bound); message contents, ids and the
        # outcome of every send stay symbolic
        loops={0: LoopSpec(unroll=3),
               1: LoopSpec(unroll=3)}))
    from proxy.core.event import eventNames
    ACK_S = 1000000 + int(eventNames.SUBSCRIBED)
    ACK_U = 1000000 + int(eventNames.UNSUBSCRIBED)
    NAME = 'Event_key_event_name(ev)'
    SID = 'Payload_key_sub_id(Event_key_event_payload(ev))'
    CONN = 'Payload_key_conn(Event_key_event_payload(ev))'
    T.append(reg.contract(
        DP, 'EventDispatcher.handle_event', self_cls='EventDispatcher', params={'ev': ('opaque', 'Event')}, ghost_init=G,
        requires=[('log-shape', 'len(sent_ch) == len(sent_ev)'), ('bounded-subscribers', 'len(%s) <= 3' % SUB)],
        modifies=['self.subscribers'],
        ensures=[('subscribe-acked-or-dropped',
                  '%s == %d ==> ((%s.has(%s) and %s[%s] == %s and sent_ch == old(sent_ch) + [%s] and sent_ev == old(sent_ev) + [%d]) or '
                  '(not %s.has(%s) and sent_ch == old(sent_ch) and sent_ev == old(sent_ev)))' % (
                      NAME, int(eventNames.SUBSCRIBE), SUB, SID, SUB, SID, CONN, CONN, ACK_S, SUB, SID)),
                 ('unsubscribe-removes', '%s == %d ==> not %s.has(%s)' % (NAME, int(eventNames.UNSUBSCRIBE), SUB, SID)),
                 ('unsubscribe-ack-at-most-once',
                  '%s == %d ==> ((sent_ev == old(sent_ev) and sent_ch == old(sent_ch)) or '
                  '(old(%s).has(%s) and sent_ev == old(sent_ev) + [%d] and sent_ch == old(sent_ch) + [old(%s)[%s]]))' % (
                      NAME, int(eventNames.UNSUBSCRIBE), SUB, SID, ACK_U, SUB, SID)),
                 ('unknown-unsubscribe-is-a-noop', '(%s == %d and not old(%s).has(%s)) ==> unchanged(%s)' % (
                     NAME, int(eventNames.UNSUBSCRIBE), SUB, SID, SUB)),
                 ('publish-fans-out-this-event-only',
                  '(%s != %d and %s != %d) ==> sent_ev == old(sent_ev) + rep(evid(ev), len(sent_ev) - len(old(sent_ev)))' % (
                      NAME, int(eventNames.SUBSCRIBE), NAME, int(eventNames.UNSUBSCRIBE)))],
        raises={}))
    return T


def bounded_checks(reg, tier, seed):
    """Bounded stand-in / counterexample finder on the real EventDispatcher (the solvers do not
    build models for sequence-indexed clauses): 1..3 subscribers, every set of broken channels,
    every break position in a fixed publish/unsubscribe script.  Exhaustive for that family."""
    import itertools
    from proxy.core.event.dispatcher import EventDispatcher
    from proxy.core.event import eventNames

    class Chan(object):
        def __init__(self):
            self.got, self.broken, self.closed = [], False, False

        def send(self, x):
            if self.broken:
                raise BrokenPipeError()
            self.got.append(x)

        def close(self):
            self.closed = True
    bad = []
    n_cases = 0
    for n in (1, 2, 3):
        for broken in itertools.product([None, 0, 1, 2, 3], repeat=n):      # index of the event before which the channel breaks
            d = EventDispatcher(shutdown=None, event_queue=None)
            chans = [Chan() for _ in range(n)]
            expect = [[] for _ in range(n)]
            alive = [False] * n
            for i, c in enumerate(chans):
                d.handle_event({'event_name': eventNames.SUBSCRIBE, 'event_payload': {'sub_id': 's%d' % i, 'conn': c}})
                alive[i] = True
                expect[i].append({'event_name': eventNames.SUBSCRIBED})
            script = ['e0', 'e1', ('unsub', 0), 'e2', ('unsub', 0), ('unsub', 'nobody'), 'e3']
            evno = 0
            try:
                for step in script:
                    if isinstance(step, str):
                        for i in range(n):
                            if broken[i] == evno:
                                chans[i].broken = True
                        ev = {'event_name': eventNames.WORK_STARTED, 'event_payload': {'n': step}}
                        d.handle_event(ev)
                        for i in range(n):
                            if alive[i]:
                                if chans[i].broken:
                                    alive[i] = False
                                else:
                                    expect[i].append(ev)
                        evno += 1
                    else:
                        sid = step[1]
                        d.handle_event({'event_name': eventNames.UNSUBSCRIBE,
                                        'event_payload': {'sub_id': 's%s' % sid if sid != 'nobody' else 'nobody'}})
                        if sid != 'nobody' and alive[sid]:
                            if not chans[sid].broken:
                                expect[sid].append({'event_name': eventNames.UNSUBSCRIBED})
                            alive[sid] = False
            except Exception as e:      # noqa
                bad.append({'n': n, 'broken_before_event': list(broken), 'what': 'dispatcher raised %r' % (e,)})
                continue
            n_cases += 1
            for i in range(n):
                if chans[i].got != expect[i]:
                    bad.append({'n': n, 'broken_before_event': list(broken), 'subscriber': i,
                                'got': [str(x.get('event_payload', x))[:30] for x in chans[i].got],
                                'expected': [str(x.get('event_payload', x))[:30] for x in expect[i]]})
                    break
    return [{'name': 'native exhaustive script sweep on EventDispatcher.handle_event', 'bounded': True,
             'bound': '1..3 subscribers x every break position (none / before event 0..3) per channel, fixed script of 4 publishes and 3 unsubscribes',
             'cases': n_cases, 'violations': bad[:3]}]
