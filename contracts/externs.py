"""Extern models: library calls whose semantics the executor encodes directly
(each one is an assumption, listed in the evidence: E-CODEC etc.)."""
import struct

import z3

from pyvc.vals import *      # noqa: F401,F403
from pyvc.engine import SpecFun, Unsupported, fresh_name, truthy

C256 = z3.IntVal(256)


def chr8(n):
    return z3.StrFromCode(n)


BE64 = z3.Function('be64', z3.IntSort(), z3.StringSort())
UNBE64 = z3.Function('unbe64', z3.StringSort(), z3.IntSort())


def be64_axioms(n):
    """E-CODEC for the 8-byte form (kept uninterpreted: arithmetic with 256**7 stalls both solvers):
    struct.pack('!Q', n) has 8 bytes and struct.unpack inverts it"""
    return [z3.Length(BE64(n)) == 8, z3.Implies(z3.And(n >= 0, n < 2 ** 64), UNBE64(BE64(n)) == n)]


def be(n, width):
    """big-endian encoding of int term n in `width` bytes"""
    if width == 8:
        return BE64(n)
    parts = []
    for k in range(width - 1, -1, -1):
        parts.append(z3.StrFromCode((n % 256) if k == 0 else ((n / z3.IntVal(256 ** k)) % 256)))
    return z3.Concat(*parts) if len(parts) > 1 else parts[0]


def be_val(s, width):
    if width == 8:
        return UNBE64(s)
    tot = z3.IntVal(0)
    for k in range(width):
        tot = tot * 256 + z3.StrToCode(z3.SubString(s, k, 1))
    return tot


def add_codec_specfuns(reg):
    reg.specfuns['chr8'] = SpecFun('chr8', ['int'], 'bytes', define=chr8, pyimpl=lambda n: bytes([n]))
    reg.specfuns['be16'] = SpecFun('be16', ['int'], 'bytes', define=lambda n: be(n, 2))
    reg.specfuns['be64'] = SpecFun('be64', ['int'], 'bytes', define=lambda n: be(n, 8))
    reg.specfuns['is_bytes'] = SpecFun('is_bytes', ['bytes'], 'bool',
                                       define=lambda s: z3.InRe(s, z3.Star(z3.Range(chr(0), chr(255)))))


def add_struct(reg):
    """struct.pack / struct.unpack for the formats used by the repository (E-CODEC)."""
    FMT = {'!B': [1], '!H': [2], '!Q': [8], '!BH': [1, 2], '!BQ': [1, 8], '!BHQ': [1, 2, 8], '!I': [4]}

    def pack(ex, st, args, kwargs, fr):
        return ex.unopt_all(args, st, lambda a, s: pack_(ex, s, a, kwargs, fr))

    def pack_(ex, st, args, kwargs, fr):
        fmt = const_str(args[0].t)
        if fmt not in FMT:
            raise Unsupported('struct.pack format %r' % fmt)
        widths = FMT[fmt]
        vals = args[1:]
        if len(vals) != len(widths):
            return ex.exc(struct.error, st)
        ok = z3.And([z3.And(v.t >= 0, v.t < 256 ** w) for v, w in zip(vals, widths)])

        def good(s):
            for v, w in zip(vals, widths):
                if w == 8:
                    for ax in be64_axioms(v.t):
                        s.assume(ax)
            parts = [be(v.t, w) for v, w in zip(vals, widths)]
            return ex.val(VStr(z3.Concat(*parts) if len(parts) > 1 else parts[0], 'bytes'), s)
        return ex.branch(ok, st, good, lambda s: ex.exc(struct.error, s))

    def unpack(ex, st, args, kwargs, fr):
        fmt = const_str(args[0].t)
        if fmt not in FMT or len(FMT[fmt]) != 1:
            raise Unsupported('struct.unpack format %r' % fmt)
        w = FMT[fmt][0]
        d = args[1]

        def good(s):
            v = z3.Int(fresh_name('unpacked'))
            s.assume(v == be_val(d.t, w))
            s.assume(z3.And(v >= 0, v < 256 ** w))
            if w == 8:
                s.assume(BE64(v) == d.t)
            return ex.val(VTuple([VInt(v)]), s)
        return ex.branch(z3.Length(d.t) == w, st, good, lambda s: ex.exc(struct.error, s))
    reg.externs['_struct.pack'] = pack
    reg.externs['_struct.unpack'] = unpack
    reg.externs['struct.pack'] = pack
    reg.externs['struct.unpack'] = unpack
    reg.assumptions.append('E-CODEC: struct.pack/unpack "!B/H/Q" are big-endian of width 1/2/8 and raise struct.error outside range')


def add_bytesio(reg):
    """io.BytesIO used write-only then getvalue(): a mutable byte string."""
    reg.klass('BytesIO', py=None, fields={'v': 'bytes'})

    def ctor(ex, st, args, kwargs, fr):
        ref = st.alloc(HObj('BytesIO', {'v': VStr(b'', 'bytes')}, None))
        return ex.val(ref, st)
    reg.externs['_io.BytesIO'] = ctor
    reg.externs['io.BytesIO'] = ctor
    reg.contract('<extern>', 'BytesIO.write', params={'data': 'bytes'}, self_cls='BytesIO', assumed=True,
                 modifies=['self.v'], result='int',
                 ensures=['self.v == old(self.v) + data', 'result == len(data)'])
    reg.contract('<extern>', 'BytesIO.getvalue', self_cls='BytesIO', assumed=True, modifies=[], result='bytes',
                 ensures=['result == self.v'])


def add_misc(reg):
    def token_bytes(ex, st, args, kwargs, fr):
        n = args[0]
        t = z3.String(fresh_name('token'))
        st.assume(z3.Length(t) == n.t)
        st.assume(z3.InRe(t, z3.Star(z3.Range(chr(0), chr(255)))))
        return ex.val(VStr(t, 'bytes'), st)
    reg.externs['secrets.token_bytes'] = token_bytes

    def now(ex, st, args, kwargs, fr):
        # E-TIME: ghost `now` is what the first time.time() call of the function under contract
        # returns; later calls return fresh, non-decreasing values.
        if not st.ghost.get('$now_used'):
            if 'now' not in st.ghost:
                st.ghost['now'] = VInt(z3.Int(fresh_name('now')))
            st.ghost['$now_used'] = VBool(True)
            t = st.ghost['now']
        else:
            t = VInt(z3.Int(fresh_name('now')))
            st.assume(t.t >= st.ghost['$last_now'].t)
        st.ghost['$last_now'] = t
        st.notes.append(('env', 'time.time', 'ret', t))
        return ex.val(t, st)
    reg.externs['time.time'] = now

    def other_clock(name):
        # any other clock (monotonic, perf_counter ...) has its own epoch: fresh non-decreasing values that are
        # NOT related to the wall clock `now` the contracts (and HttpProtocolHandler.__init__) speak about
        def clock(ex, st, args, kwargs, fr):
            t = VInt(z3.Int(fresh_name(name)))
            last = st.ghost.get('$last_' + name)
            if last is not None:
                st.assume(t.t >= last.t)
            st.ghost['$last_' + name] = t
            return ex.val(t, st)
        return clock
    for nm in ('monotonic', 'perf_counter', 'process_time', 'monotonic_ns', 'time_ns'):
        reg.externs['time.' + nm] = other_clock(nm)


def add_text(reg):
    """utf-8 decode/encode: identity on ASCII, otherwise uninterpreted (E-CODEC)."""
    ascii_re = z3.Star(z3.Range(chr(0), chr(127)))
    dec = SpecFun('utf8dec', ['bytes'], 'str')
    ok = SpecFun('utf8_ok', ['bytes'], 'bool')
    enc = SpecFun('utf8enc', ['str'], 'bytes')
    dec.unfold = lambda s: [z3.Implies(z3.InRe(s, ascii_re), z3.And(dec.decl(s) == s, ok.decl(s)))]
    def is_decimal(t):
        """the term is str(int): IntToStr(x), or If(c, IntToStr(x), '-' + IntToStr(y))"""
        if z3.is_app_of(t, z3.Z3_OP_INT_TO_STR):
            return True
        if z3.is_app_of(t, z3.Z3_OP_ITE):
            return is_decimal(t.arg(1)) and is_decimal(t.arg(2))
        if z3.is_app_of(t, z3.Z3_OP_SEQ_CONCAT) and t.num_args() == 2 and z3.is_string_value(t.arg(0)):
            return is_decimal(t.arg(1))
        return False

    def enc_unfold(s):
        if is_decimal(s):
            return [enc.decl(s) == s]           # decimal digits and '-' are ASCII
        return [z3.Implies(z3.InRe(s, ascii_re), enc.decl(s) == s)]
    enc.unfold = enc_unfold
    reg.specfuns.update(utf8dec=dec, utf8_ok=ok, utf8enc=enc)
    reg.specfuns['is_ascii'] = SpecFun('is_ascii', ['bytes'], 'bool', define=lambda s: z3.InRe(s, ascii_re))
    reg.assumptions.append('E-CODEC: bytes.decode("utf-8") is the identity on ASCII input and raises UnicodeDecodeError '
                           'exactly when the input is not valid UTF-8 (uninterpreted otherwise)')


def add_ospath(reg):
    """os.path.normpath / commonprefix / str.rstrip('/') (E-PATH)."""
    norm = SpecFun('normpath', ['str'], 'str')
    # E-PATH: the result of normpath has no trailing separator unless it is the root itself,
    # and contains no '/../' or '/./' segment or '//' (POSIX: absolute input)
    def norm_ax(s):
        r = norm.decl(s)
        return [z3.Or(z3.Not(z3.SuffixOf(z3.StringVal('/'), r)), r == z3.StringVal('/'), r == z3.StringVal('//')),
                z3.Length(r) > 0,
                z3.Implies(z3.Not(z3.PrefixOf(z3.StringVal('//'), s)), z3.Not(z3.PrefixOf(z3.StringVal('//'), r))),
                z3.Implies(z3.PrefixOf(z3.StringVal('/'), s), z3.PrefixOf(z3.StringVal('/'), r))]
    norm.unfold = norm_ax
    reg.specfuns['normpath'] = norm

    def normpath(ex, st, args, kwargs, fr):
        for ax in norm_ax(args[0].t):
            st.assume(ax)
        return ex.val(VStr(norm.decl(args[0].t), 'str'), st)
    reg.externs['posixpath.normpath'] = normpath

    def commonprefix(ex, st, args, kwargs, fr):
        h = st.heap[args[0].ref]
        if not h.items or len(h.items) != 2:
            raise Unsupported('commonprefix of a non-literal list')
        a, b = h.items[0].t, h.items[1].t
        p = z3.String(fresh_name('commonprefix'))
        n = z3.Length(p)
        st.assume(z3.And(z3.PrefixOf(p, a), z3.PrefixOf(p, b)))
        st.assume(z3.Or(n == z3.Length(a), n == z3.Length(b), z3.SubString(a, n, 1) != z3.SubString(b, n, 1)))
        return ex.val(VStr(p, 'str'), st)
    reg.externs['genericpath.commonprefix'] = commonprefix
    rs = SpecFun('rstrip_slash', ['str'], 'str')
    rs.unfold = lambda s: [z3.Implies(z3.Not(z3.SuffixOf(z3.StringVal('/'), s)), rs.decl(s) == s),
                           rs.decl(z3.StringVal('/')) == z3.StringVal(''),
                           z3.PrefixOf(rs.decl(s), s), z3.Not(z3.SuffixOf(z3.StringVal('/'), rs.decl(s)))]
    reg.specfuns['rstrip_slash'] = rs
    reg.assumptions.append('E-PATH: os.path.normpath removes every "."/".." segment and repeated separators of an '
                           'absolute POSIX path (its result has no trailing separator unless it is the root); symlinks ignored')


def add_strfuns(reg):
    """A-STR: bytes.lower() and bytes.split() (no separator) as uninterpreted functions with the
    axioms the properties need."""
    low = SpecFun('lower', ['bytes'], 'bytes')
    def low_unfold(s):
        ax = [z3.Length(low.decl(s)) == z3.Length(s), low.decl(low.decl(s)) == low.decl(s)]
        cs = const_str(s)
        if cs is not None:      # a literal: its lower-case form is known
            ax.append(low.decl(s) == z3.StringVal(cs.encode('latin-1').lower().decode('latin-1')))
        else:                   # equal to a literal of the function under verification: likewise
            for lit in getattr(reg, 'literals', ()):     # ground facts; congruence does the rest
                ax.append(low.decl(z3.StringVal(lit.decode('latin-1'))) == z3.StringVal(lit.lower().decode('latin-1')))
        return ax
    low.unfold = low_unfold
    reg.specfuns['lower'] = low
    ws = SpecFun('wsplit', ['bytes'], ('list', 'bytes'))
    reg.specfuns['wsplit'] = ws

    def wsplit(ex, st, args, kwargs, fr):
        o = args[0]
        lst = st.alloc(HList('bytes', ws.decl(o.t)))
        return ex.val(lst, st)
    reg.externs['wsplit'] = wsplit
    reg.assumptions.append('A-STR: bytes.lower and bytes.split() (whitespace split) are uninterpreted functions; '
                           'lower is idempotent and length preserving')


def add_ipaddress(reg):
    """ipaddress.ip_address(s): ValueError unless s is an address literal (uninterpreted predicate
    is_ip_literal, with version 4 or 6)."""
    isip = SpecFun('is_ip_literal', ['str'], 'bool')
    ver = SpecFun('ip_version', ['str'], 'int')
    reg.specfuns.update(is_ip_literal=isip, ip_version=ver)
    reg.klass('IPAddress', py=None, fields={'version': 'int'})

    def ip_address(ex, st, args, kwargs, fr):
        a = args[0]

        def ok(s):
            s.assume(z3.Or(ver.decl(a.t) == 4, ver.decl(a.t) == 6))
            # an address literal never carries brackets
            s.assume(z3.Not(z3.PrefixOf(z3.StringVal('['), a.t)))
            return ex.val(s.alloc(HObj('IPAddress', {'version': VInt(ver.decl(a.t))}, None)), s)
        return ex.branch(isip.decl(a.t), st, ok, lambda s: ex.exc(ValueError, s))
    reg.externs['ipaddress.ip_address'] = ip_address
    reg.assumptions.append('ipaddress.ip_address accepts exactly the IPv4/IPv6 literals (uninterpreted predicate '
                           'is_ip_literal; bracketed spellings are not literals)')


def add_http_ser(reg):
    """Spec functions of the RFC 7230 message serialisation (independent of the code):
    hdrs(K, m, n)   = the first n header fields  'K[j]: m[K[j]] CRLF'  in order (right recursion)
    anylow(K, n, x) = some j < n has lower(K[j]) == x
    lastlow(K, n, x, d) = the last such K[j], or d"""
    S = z3.StringSort()
    SS = z3.SeqSort(S)
    A = z3.ArraySort(S, S)
    hd = z3.Function('hdrs', SS, A, z3.IntSort(), S)

    class Hdrs(object):
        name, restype, define, pyimpl = 'hdrs', 'bytes', None, None
        decl = hd

        def apply(self, K, m, n):
            return hd(K, m, n)

        def unfold(self, K, m, n):
            ax = []
            for d in range(2):
                k = n - d
                key = K[k - 1]
                ax.append(hd(K, m, k) == z3.If(k <= 0, z3.StringVal(''),
                                               z3.Concat(hd(K, m, k - 1), key, z3.StringVal(': '), z3.Select(m, key),
                                                         z3.StringVal('\r\n'))))
            return ax
    reg.specfuns['hdrs'] = Hdrs()
    low = reg.specfuns['lower']
    al = z3.Function('anylow', SS, z3.IntSort(), S, z3.BoolSort())

    class AnyLow(object):
        name, restype, define, pyimpl = 'anylow', 'bool', None, None
        decl = al

        def apply(self, K, n, x):
            return al(K, n, x)

        def unfold(self, K, n, x):
            ax = []
            for d in range(2):
                k = n - d
                ax.append(al(K, k, x) == z3.If(k <= 0, z3.BoolVal(False), z3.Or(al(K, k - 1, x), low.decl(K[k - 1]) == x)))
            return ax
    reg.specfuns['anylow'] = AnyLow()
    ll = z3.Function('lastlow', SS, z3.IntSort(), S, S, S)

    class LastLow(object):
        """lastlow(K, n, x, d) = the last K[j], j < n, with lower(K[j]) == x; d when there is none"""
        name, restype, define, pyimpl = 'lastlow', 'bytes', None, None
        decl = ll

        def apply(self, K, n, x, d):
            return ll(K, n, x, d)

        def unfold(self, K, n, x, d):
            ax = []
            for e in range(2):
                k = n - e
                ax.append(ll(K, k, x, d) == z3.If(k <= 0, d, z3.If(low.decl(K[k - 1]) == x, K[k - 1], ll(K, k - 1, x, d))))
            return ax
    reg.specfuns['lastlow'] = LastLow()
    jn = SpecFun('join', ['bytes', ('list', 'bytes')], 'bytes')

    def units(t):
        """[x1, .., xn] when the sequence term is literally a concatenation of units, else None"""
        t = z3.simplify(t)
        if z3.is_app_of(t, z3.Z3_OP_SEQ_UNIT):
            return [t.arg(0)]
        if z3.is_app_of(t, z3.Z3_OP_SEQ_EMPTY):
            return []
        if z3.is_app_of(t, z3.Z3_OP_SEQ_CONCAT):
            out = []
            for c in t.children():
                u = units(c)
                if u is None:
                    return None
                out += u
            return out
        return None

    def join_unfold(sep, seq):
        us = units(seq)
        if us is None:
            return []
        if not us:
            return [jn.decl(sep, seq) == z3.StringVal('')]
        parts = [us[0]]
        for u in us[1:]:
            parts += [sep, u]
        return [jn.decl(sep, seq) == (z3.Concat(*parts) if len(parts) > 1 else parts[0])]
    jn.unfold = join_unfold
    reg.specfuns['join'] = jn
    reg.specfuns['dec'] = SpecFun('dec', ['int'], 'str', define=lambda n: z3.If(
        n >= 0, z3.IntToStr(n), z3.Concat(z3.StringVal('-'), z3.IntToStr(-n))))


def add_intparse(reg):
    """int(b) / int(b, 16) on byte strings: uninterpreted value + validity predicate (A-STR)."""
    for nm in ('int_dec', 'int_hex'):
        reg.specfuns[nm] = SpecFun(nm, ['bytes'], 'int')
        reg.specfuns[nm + '_ok'] = SpecFun(nm + '_ok', ['bytes'], 'bool')
    reg.assumptions.append('A-STR: int(s) / int(s, 16) raise ValueError exactly outside an uninterpreted validity predicate; '
                           'their value is an uninterpreted function of the text')


def add_dict_values(reg):
    """dvals(K, m, n): the values of the first n keys of an (ordered) dict with opaque-object
    values, in key order (right recursion) — for ghost logs of per-plugin hook calls."""
    S = z3.StringSort()
    SS = z3.SeqSort(S)
    A = z3.ArraySort(S, z3.IntSort())
    SI = z3.SeqSort(z3.IntSort())
    dv = z3.Function('dvals', SS, A, z3.IntSort(), SI)

    class DVals(object):
        name, restype, define, pyimpl = 'dvals', ('list', 'int'), None, None
        decl = dv

        def apply(self, K, m, n):
            return dv(K, m, n)

        def unfold(self, K, m, n):
            ax = []
            for d in range(2):
                k = n - d
                ax.append(dv(K, m, k) == z3.If(k <= 0, z3.Empty(SI), z3.Concat(dv(K, m, k - 1), z3.Unit(z3.Select(m, K[k - 1])))))
                ax.append(z3.Length(dv(K, m, k)) == z3.If(k <= 0, 0, k))
            return ax
    reg.specfuns['dvals'] = DVals()


def add_split_all(reg):
    """s.split(sep) without maxsplit: uninterpreted sequence splitall(s, sep) with sound facts
    (A-STR): never empty; one piece iff sep absent; two pieces iff exactly one occurrence; the last
    piece is the text after the last separator and join(sep, pieces[:-1]) the text before it."""
    from pyvc.vals import seq_slice
    sp_f = SpecFun('splitall', ['bytes', 'bytes'], ('list', 'bytes'))
    reg.specfuns['splitall'] = sp_f
    jn = reg.specfuns.get('join') or SpecFun('join', ['bytes', ('list', 'bytes')], 'bytes')
    reg.specfuns['join'] = jn

    def split_all(ex, st, args, kwargs, fr):
        o, sep = args
        sp = sp_f.decl(o.t, sep.t)
        L = z3.Length(sp)
        has = z3.Contains(o.t, sep.t)
        st.assume(L >= 1)
        st.assume(z3.Implies(z3.Not(has), z3.And(L == 1, sp[0] == o.t)))
        st.assume(z3.Implies(has, L >= 2))
        pre = z3.String(fresh_name('split.pre'))
        last = z3.String(fresh_name('split.last'))
        st.assume(z3.Implies(has, z3.And(o.t == z3.Concat(pre, sep.t, last), z3.Not(z3.Contains(last, sep.t)),
                                         sp[L - 1] == last,
                                         jn.decl(sep.t, seq_slice(sp, None, z3.IntVal(-1))) == pre,
                                         z3.Implies(z3.Not(z3.Contains(pre, sep.t)), z3.And(L == 2, sp[0] == pre)),
                                         z3.Implies(z3.Contains(pre, sep.t), L >= 3))))
        lst = st.alloc(HList(o.kind if o.kind != 'mv' else 'bytes', sp))
        return ex.val(lst, st)
    reg.externs['split_all'] = split_all


def add_path_ufs(reg):
    """Library string transformations a change might interpose on a path (percent-decoding, absolutising,
    joining ...): uninterpreted functions without axioms -- whatever they return is NOT known to be their
    argument, so `open(unquote(path))` cannot be shown to open `path`."""
    from pyvc.vals import VStr

    def uf(name, arity):
        f = z3.Function('lib_' + name.replace('.', '_'), *([z3.StringSort()] * arity + [z3.StringSort()]))

        def model(ex, st, args, kwargs, fr):
            a = [x.t for x in args[:arity]]
            while len(a) < arity:
                a.append(z3.StringVal(''))
            return ex.val(VStr(f(*a), args[0].kind if args else 'str'), st)
        return model
    for nm, k in (('urllib.parse.unquote', 1), ('urllib.parse.unquote_plus', 1), ('urllib.parse.quote', 1), ('urllib.parse.unquote_to_bytes', 1),
                  ('posixpath.abspath', 1), ('posixpath.realpath', 1), ('posixpath.expanduser', 1), ('posixpath.basename', 1),
                  ('posixpath.dirname', 1), ('posixpath.join', 2), ('posixpath.relpath', 2), ('posixpath.normcase', 1)):
        if nm not in reg.externs:
            reg.externs[nm] = uf(nm, k)
    reg.assumptions.append('library path transformations other than normpath are uninterpreted (no axioms): nothing is known about their result')
