"""C10 — every connection's resources are released exactly once, however it ends.

Executor bookkeeping (works / registered events / received descriptor) is the C05 contract set;
here additionally: HttpProtocolHandler.shutdown closes the client socket and runs the plugin's
close hook exactly once on ALL exits; the proxy plugin closes its upstream.
OS descriptor tables are out of reach: socket.close() releasing the descriptor is assumed."""
from pyvc.engine import LoopSpec
from . import C05, handler, proxyplugin

HH = 'proxy/http/handler.py'
SV = 'proxy/http/proxy/server.py'
ASSUMPTIONS = ['socket.close() releases the descriptor (kernel tables are not modelled)',
               
               'termination of HttpProtocolHandler._flush is not proved (it depends on the peer reading)']


def build(reg):
    T = C05.build(reg)
    handler.add_handler(reg)
    reg.classes['Socket'] = dict(py='socket:socket', fields={}, inv=[], ghost={})
    G = {'closed_socks': ('seq', 'int'), 'close_hooks': 'int'}
    reg.contract('<env>', 'Socket.close', self_cls='Socket', assumed=True, modifies=[], raises={},
                 ghost_init={'closed_socks': ('seq', 'int')}, ensures=['closed_socks == old(closed_socks) + [self]'])
    reg.contract('<env>', 'Socket.unwrap', self_cls='Socket', assumed=True, modifies=[], result=('opaque', 'Socket'),
                 raises={'OSError': []}, note='TLS close_notify; may fail when the peer is gone')
    reg.contract('<env>', 'Socket.shutdown', params={'how': 'int'}, self_cls='Socket', assumed=True, modifies=[],
                 raises={'OSError': []}, note='peer may already be gone: ENOTCONN etc.')
    c = reg.contracts['ProtoPlugin.on_client_connection_close']
    c.ghost_init = {'close_hooks': 'int'}
    c.ensures = c.ensures + [('counted', 'close_hooks == old(close_hooks) + 1')]
    c.raises = {'Exception': c.raises['Exception'] + [('counted', 'close_hooks == old(close_hooks) + 1')]}
    for m, params, res in (('register', {'fileobj': ('opaque', 'Socket'), 'events': 'int'}, None),
                           ('unregister', {'fileobj': ('opaque', 'Socket')}, None),
                           ('select', {'timeout': 'int'}, ('list', 'int'))):
        reg.contract('<env>', 'Selector.' + m, params=params, self_cls='Selector', assumed=True, modifies=[],
                     result=res, raises={}, note='E-SEL: the per-connection selector of threaded mode holds no stale registration')
    if reg.kf.active('F20'):
        # known finding F20 (open): would-block exceptions inside the final threaded flush.
        # Carve-out: exactly that input class is excluded from _flush's obligations.
        fl = reg.contracts['TcpConnection.flush']
        import copy
        fl2 = copy.copy(fl)
        fl2.raises = {k: v for k, v in fl.raises.items() if not k.startswith('ssl.SSLWant')}
        fl2.raises['OSError'] = fl.raises['OSError']
        reg.flush_without_wouldblock = fl2
    T.append(reg.contract(
        HH, 'HttpProtocolHandler._flush', self_cls='HttpProtocolHandler', requires=handler.HANDLER_PRE,
        alias=handler.HANDLER_ALIAS,
        modifies=['self.work.buffer', 'self.work._num_buffer', 'self.work.wire', 'self.work.dead'],
        ensures=[('repr', 'self.work._num_buffer == len(self.work.buffer)'),
                 ('drained-or-client-dead', 'len(self.work.buffer) == 0 or self.work.dead')],
        raises={'AssertionError': []},
        loops={0: LoopSpec(inv=['self.work._num_buffer == len(self.work.buffer)', 'self.work.dead == old(self.work.dead)'],
                           modifies=['self.work.buffer', 'self.work._num_buffer', 'self.work.wire', 'ev'])}))
    if getattr(reg, 'flush_without_wouldblock', None) is not None:
        T[-1].callee_overrides = {'TcpConnection.flush': reg.flush_without_wouldblock}
    reg.contract(HH, 'HttpProtocolHandler.publish_event', self_cls='HttpProtocolHandler', assumed=True, modifies=[],
                 params={'event_name': 'int', 'event_payload': ('opaque', 'dictliteral'), 'publisher_id': 'str'},
                 raises={}, note='event publication (C18)')
    T.append(reg.contract(
        HH, 'HttpProtocolHandler.shutdown', self_cls='HttpProtocolHandler', requires=handler.HANDLER_PRE,
        alias=handler.HANDLER_ALIAS, ghost_init=G,
        modifies=['self.work.buffer', 'self.work._num_buffer', 'self.work.wire'],
        raise_modifies=['self.work.buffer', 'self.work._num_buffer', 'self.work.wire'],
        ensures=[('client-socket-closed-exactly-once', 'closed_socks == old(closed_socks) + [self.work._conn]'),
                 ('close-hook-exactly-once', '(not isnone(self.plugin)) ==> close_hooks == old(close_hooks) + 1'),
                 ('no-hook-without-plugin', 'isnone(self.plugin) ==> close_hooks == old(close_hooks)')],
        raises={'Exception': [('client-socket-closed-exactly-once', 'closed_socks == old(closed_socks) + [self.work._conn]'),
                              ('close-hook-at-most-once', 'close_hooks <= old(close_hooks) + 1')]}))
    T += upstream_close_contracts(reg)
    return T


def upstream_close_contracts(reg):
    """The proxy plugin's close hook (its last statements) and the reverse proxy's: the upstream socket
    of the connection is closed exactly once -- whether or not the peer is still there, whether or not it
    was ever connected -- and never twice.  (A user plugin's on_upstream_connection_close hook raising
    is outside this contract: see F16 in DESIGN.md.)"""
    TCPC = 'proxy/core/connection/connection.py'
    reg.klass('ProxyFlags', py=None, fields={'enable_conn_pool': 'bool'})
    reg.klass('HttpProxyPlugin', py='proxy.http.proxy.server:HttpProxyPlugin', fields={
        'upstream': ('opt', ('obj', 'TcpServerConnection')), 'flags': ('obj', 'ProxyFlags'),
        'plugins': ('dict', 'str', ('opaque', 'ProxyBasePlugin')), 'upstream_conn_pool': ('opt', ('opaque', 'ConnPool'))})
    reg.contract('<plugin>', 'ProxyBasePlugin.on_upstream_connection_close', self_cls='ProxyBasePlugin', assumed=True, modifies=[],
                 raises={}, note='user hook: assumed not to raise here (F16)')
    reg.contract('<pool>', 'ConnPool.release', self_cls='ConnPool', params={'conn': ('obj', 'TcpServerConnection')}, assumed=True,
                 modifies=[], raises={}, note='connection pool keeps or closes the connection itself')
    up = 'self.upstream'
    LIVE = '(not isnone(old(%s)) and not old(%s.closed) and not isnone(old(%s._conn)))' % (up, up, up)
    POSTS = [('upstream-socket-closed-exactly-once', '%s ==> (closed_socks == old(closed_socks) + [old(%s._conn)] and %s.closed)' % (LIVE, up, up)),
             ('nothing-else-closed', 'not %s ==> closed_socks == old(closed_socks)' % LIVE),
             ('never-twice', 'len(closed_socks) <= len(old(closed_socks)) + 1')]
    # a TcpServerConnection that was never connected is born closed (its constructor), connect() clears the flag
    INV = ('never-connected-means-closed', 'isnone(%s) or (isnone(%s._conn) ==> %s.closed)' % (up, up, up))
    T = [reg.contract(
        SV, 'HttpProxyPlugin.on_client_connection_close', self_cls='HttpProxyPlugin', ghost_init={'closed_socks': ('seq', 'int')},
        body_slice=('for plugin in self.plugins.values():\n            plugin.on_upstream_connection_close()', 'try:'),
        requires=[('pool-off', 'not self.flags.enable_conn_pool'), INV],
        modifies=['self.upstream.closed'], ensures=POSTS, raises={},
        loops={0: LoopSpec(unroll=2)})]
    reg.klass('ReverseProxy', py='proxy.http.server.reverse:ReverseProxy', fields={'upstream': ('opt', ('obj', 'TcpServerConnection'))})
    T.append(reg.contract(
        'proxy/http/server/reverse.py', 'ReverseProxy.on_client_connection_close', self_cls='ReverseProxy',
        ghost_init={'closed_socks': ('seq', 'int')}, modifies=['self.upstream', 'self.upstream.closed'], requires=[INV],
        ensures=[('upstream-socket-closed-exactly-once',
                  '%s ==> closed_socks == old(closed_socks) + [old(%s._conn)]' % (LIVE, up)),
                 ('nothing-else-closed', 'not %s ==> closed_socks == old(closed_socks)' % LIVE),
                 ('never-twice', 'len(closed_socks) <= len(old(closed_socks)) + 1')],
        raises={}))
    return T
