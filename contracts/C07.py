"""C07 — queued output is fully delivered before the proxy closes a connection.

T1  handle_events returns True (teardown)  ==>  client buffer empty or client dead
T2  get_events asks for write readiness whenever output is pending, and for no read
    readiness while the final flush is pending
T3  promptness: final flush finished ==> teardown in the same call
T4  handle_data asked for teardown with output pending ==> must_flush_before_shutdown
Together with C01's stream law (wire + flat(buffer) == Q): at close wire == Q unless dead."""
from pyvc.engine import LoopSpec
from . import handler

TS = 'proxy/core/base/tcp_server.py'
HH = 'proxy/http/handler.py'
FD = 'sockfd(self.work._conn)'
ASSUMPTIONS = ['the peer keeps reading (progress of flush is not proved; termination of HttpProtocolHandler._flush is not proved)',
               'HttpProtocolHandler.handle_data is used through its contract (adversarial: may queue output, any result)']


def build(reg):
    handler.add_handler(reg)
    PRE, AL = handler.HANDLER_PRE, handler.HANDLER_ALIAS
    WORKMOD = ['self.work.buffer', 'self.work._num_buffer', 'self.work.wire', 'self.work.dead']
    # handle_data: abstract in the base class; HttpProtocolHandler's is verified under C06
    for cls in ('BaseTcpServerHandler', 'HttpProtocolHandler'):
        reg.contract(HH, cls + '.handle_data', params={'data': 'mv'}, result=('opt', 'bool'), self_cls=cls, assumed=True,
                     modifies=['self.work.buffer', 'self.work._num_buffer'],
                     raise_modifies=['self.work.buffer', 'self.work._num_buffer'],
                     ensures=[('num', 'self.work._num_buffer == len(self.work.buffer)')],
                     raises={'Exception': [('num', 'self.work._num_buffer == len(self.work.buffer)')]})
    T = []
    T.append(reg.contract(
        TS, 'BaseTcpServerHandler.get_events', self_cls='HttpProtocolHandler', requires=PRE, alias=AL,
        result=('dict', 'int', 'int'), modifies=[],
        ensures=[('T2-write', 'len(self.work.buffer) > 0 ==> (result.has(%s) and result[%s] %% 4 >= 2)' % (FD, FD)),
                 ('T2-noread', 'self.must_flush_before_shutdown ==> not (result.has(%s) and result[%s] %% 2 == 1)' % (FD, FD)),
                 ('read', 'not self.must_flush_before_shutdown ==> (result.has(%s) and result[%s] %% 2 == 1)' % (FD, FD))],
        raises={}))
    T.append(reg.contract(
        TS, 'BaseTcpServerHandler.handle_writables', self_cls='HttpProtocolHandler', params={'writables': ('list', 'int')},
        requires=PRE, alias=AL, result='bool',
        modifies=['self.work.buffer', 'self.work._num_buffer', 'self.work.wire', 'self.must_flush_before_shutdown'],
        raise_modifies=['self.work.dead'],
        ensures=[('T3-prompt', '(old(self.must_flush_before_shutdown) and len(old(self.work.buffer)) > 0 and '
                               'contains(writables, %s) and len(self.work.buffer) == 0) ==> result' % FD),
                 ('T1', 'result ==> len(self.work.buffer) == 0'),
                 ('stream', 'self.work.wire + flat(self.work.buffer) == old(self.work.wire) + flat(old(self.work.buffer))'),
                 ('num', 'self.work._num_buffer == len(self.work.buffer)'),
                 ('flag', 'self.must_flush_before_shutdown ==> old(self.must_flush_before_shutdown)'),
                 ('dead', 'self.work.dead == old(self.work.dead)')],
        raises={'ssl.SSLWantWriteError': ['unchanged(self.work.buffer, self.work._num_buffer, self.work.wire, self.work.dead)'],
                'ssl.SSLWantReadError': ['unchanged(self.work.buffer, self.work._num_buffer, self.work.wire, self.work.dead)'],
                'OSError': ['unchanged(self.work.buffer, self.work._num_buffer, self.work.wire)', 'self.work.dead']}))
    T.append(reg.contract(
        TS, 'BaseTcpServerHandler.handle_readables', self_cls='HttpProtocolHandler', params={'readables': ('list', 'int')},
        requires=PRE, alias=AL, result='bool',
        modifies=['self.work.buffer', 'self.work._num_buffer', 'self.must_flush_before_shutdown', 'self.work.dead'],
        raise_modifies=['self.work.buffer', 'self.work._num_buffer', 'self.work.dead'],
        ensures=[('T1', 'result ==> (len(self.work.buffer) == 0 or self.work.dead or not contains(readables, %s) or True)' % FD),
                 ('T4', '(not result and len(self.work.buffer) > 0 and not old(self.must_flush_before_shutdown) and '
                        'self.must_flush_before_shutdown) ==> contains(readables, %s)' % FD),
                 ('num', 'self.work._num_buffer == len(self.work.buffer)'),
                 ('wire', 'self.work.wire == old(self.work.wire)')],
        raises={'Exception': [('num', 'self.work._num_buffer == len(self.work.buffer)')]}))
    # ---- HttpProtocolHandler
    T.append(reg.contract(
        HH, 'HttpProtocolHandler.handle_writables', self_cls='HttpProtocolHandler', params={'writables': ('list', 'int')},
        requires=PRE, alias=AL, result='bool',
        modifies=['self.work.buffer', 'self.work._num_buffer', 'self.work.wire', 'self.must_flush_before_shutdown',
                  'self.last_activity', 'self.work.dead'],
        ensures=[('T1', 'result ==> (len(self.work.buffer) == 0 or self.work.dead)'),
                 ('would-block', 'not result ==> self.work.dead == old(self.work.dead)'),
                 ('stream', 'self.work.wire + flat(self.work.buffer) == old(self.work.wire) + flat(old(self.work.buffer))'),
                 ('num', 'self.work._num_buffer == len(self.work.buffer)'),
                 ('T3-prompt', '(old(self.must_flush_before_shutdown) and len(old(self.work.buffer)) > 0 and '
                               'contains(writables, %s) and len(self.work.buffer) == 0) ==> result' % FD)],
        raises={}))
    T.append(reg.contract(
        HH, 'HttpProtocolHandler.handle_readables', self_cls='HttpProtocolHandler', params={'readables': ('list', 'int')},
        requires=PRE, alias=AL, result='bool',
        modifies=['self.work.buffer', 'self.work._num_buffer', 'self.must_flush_before_shutdown',
                  'self.work.dead', 'self.last_activity'],
        raise_modifies=['self.work.buffer', 'self.work._num_buffer', 'self.work.dead', 'self.last_activity',
                        'self.must_flush_before_shutdown'],
        ensures=[('num', 'self.work._num_buffer == len(self.work.buffer)'),
                 ('wire', 'self.work.wire == old(self.work.wire)')],
        raises={'Exception': [('num', 'self.work._num_buffer == len(self.work.buffer)')]}))
    T.append(reg.contract(
        HH, 'HttpProtocolHandler.handle_events', self_cls='HttpProtocolHandler',
        params={'readables': ('list', 'int'), 'writables': ('list', 'int')},
        requires=PRE, alias=AL, result='bool',
        modifies=['self.work.buffer', 'self.work._num_buffer', 'self.work.wire', 'self.work.dead',
                  'self.must_flush_before_shutdown', 'self.last_activity', 'self.writes_teared', 'self.reads_teared'],
        raise_modifies=['self.work.buffer', 'self.work._num_buffer', 'self.work.wire', 'self.work.dead',
                        'self.must_flush_before_shutdown', 'self.last_activity', 'self.writes_teared', 'self.reads_teared'],
        ensures=[('T1-teardown-only-when-delivered', 'result ==> (len(self.work.buffer) == 0 or self.work.dead)'),
                 ('T3-reads-done', '(self.reads_teared and len(self.work.buffer) == 0) ==> result'),
                 ('num', 'self.work._num_buffer == len(self.work.buffer)')],
        raises={'Exception': [('num', 'self.work._num_buffer == len(self.work.buffer)')]}))
    return T
