"""Sidecar tables for HttpProxyPlugin (proxy/http/proxy/server.py) and the objects it touches."""
from pyvc.engine import LoopSpec
from . import handler

PF = 'proxy/http/parser/parser.py'
SV = 'proxy/http/proxy/server.py'

PARSER_FIELDS = {
    'state': 'int', 'type': 'int', 'total_size': 'int', '_is_https_tunnel': 'bool', '_is_chunked_encoded': 'bool',
    '_content_expected': 'bool', 'buffer': ('opt', 'mv'), 'body': ('opt', 'bytes'), 'host': ('opt', 'bytes'),
    'port': ('opt', 'int'), 'path': ('opt', 'bytes'), 'method': ('opt', 'bytes'), 'version': ('opt', 'bytes'),
    'code': ('opt', 'bytes'), 'reason': ('opt', 'bytes'),
    'headers': ('opt', ('dict', 'bytes', ('tuple', 'bytes', 'bytes'))),
    '_url': ('opt', ('obj', 'Url')),
}
URL_FIELDS = {'scheme': ('opt', 'bytes'), 'username': ('opt', 'bytes'), 'password': ('opt', 'bytes'),
              'hostname': ('opt', 'bytes'), 'port': ('opt', 'int'), 'remainder': ('opt', 'bytes')}
PARSER_MOD = ['self.' + f for f in PARSER_FIELDS if f != 'type']


def add_parser_class(reg):
    if 'Url' not in reg.classes:
        reg.klass('Url', py='proxy.http.url:Url', fields=URL_FIELDS)
    reg.klass('HttpParser', py='proxy.http.parser.parser:HttpParser', fields=PARSER_FIELDS)
    # the bookkeeping parser, as a callee: it only touches its own fields.
    # A-PARSE (assumed, the one bounded clause of C01): it does not raise on the well-formed
    # responses of the property's domain (known finding F4/F1 carve this out; see C03).
    reg.contract(PF, 'HttpParser.parse', params={'raw': 'mv', 'allowed_url_schemes': ('opt', ('list', 'bytes'))},
                 self_cls='HttpParser', assumed=True, modifies=PARSER_MOD, raises={},
                 ensures=[('size', 'self.total_size == old(self.total_size) + len(raw)')],
                 note='A-PARSE: used as a callee; total_size bookkeeping proved under C03')
    reg.assumptions.append('A-PARSE: on the relay path HttpParser.parse is used through a contract that says it '
                           'returns normally and touches only its own fields (its own behaviour: C03)')


def add_proxy_plugin(reg, hooks='identity'):
    """hooks='identity': user plugins return what they are given (precondition of C01/C02);
    hooks='adversarial': any result / exception (C05, C09)."""
    handler.add_handler(reg)
    add_parser_class(reg)
    flags = dict(reg.classes['Flags']['fields'])
    flags.update({'disable_headers': ('list', 'bytes'), 'enable_conn_pool': 'bool', 'enable_events': 'bool',
                  'ca_file': ('opt', 'str'), 'insecure_tls_interception': 'bool'})
    reg.klass('Flags', py=None, fields=flags)
    reg.klass('HttpProxyPlugin', py='proxy.http.proxy.server:HttpProxyPlugin', fields={
        'client': ('obj', 'HttpClientConnection'), 'upstream': ('opt', ('obj', 'TcpServerConnection')),
        'request': ('obj', 'HttpParser'), 'response': ('obj', 'HttpParser'),
        'pipeline_request': ('opt', ('obj', 'HttpParser')), 'pipeline_response': ('opt', ('obj', 'HttpParser')),
        'plugins': ('dict', 'str', ('opaque', 'ProxyBasePlugin')), 'flags': ('obj', 'Flags'),
        'upstream_conn_pool': ('opt', ('opaque', 'ConnPool')), 'uid': 'str', 'start_time': 'int'})
    ident = hooks == 'identity'
    reg.contract('<plugin>', 'ProxyBasePlugin.handle_upstream_chunk', params={'chunk': 'mv'}, self_cls='ProxyBasePlugin',
                 assumed=True, modifies=[], result=('opt', 'mv'),
                 ensures=(['not isnone(result) and result == chunk'] if ident else []),
                 raises=({} if ident else {'Exception': []}),
                 note='user plugin hook (%s)' % hooks)
    reg.contract('<plugin>', 'ProxyBasePlugin.handle_client_data', params={'raw': 'mv'}, self_cls='ProxyBasePlugin',
                 assumed=True, modifies=[], result=('opt', 'mv'),
                 ensures=(['not isnone(result) and result == raw'] if ident else []),
                 raises=({} if ident else {'Exception': []}))
    for m in ('read_from_descriptors', 'write_to_descriptors'):
        reg.contract('<plugin>', 'ProxyBasePlugin.' + m, params={'x': ('list', 'int')}, self_cls='ProxyBasePlugin',
                     assumed=True, modifies=[], result='bool', raises=({} if ident else {'Exception': []}))
    reg.contract('<plugin>', 'ProxyBasePlugin.do_intercept', params={'request': ('obj', 'HttpParser')},
                 self_cls='ProxyBasePlugin', assumed=True, modifies=[], result='bool', raises={})
    reg.contract(SV, 'HttpProxyPlugin._tls_intercept_enabled', self_cls='HttpProxyPlugin', assumed=True, result='bool',
                 modifies=[], raises={}, note='pure predicate over flags and plugin opt-outs (C11)')
    reg.contract(SV, 'HttpProxyPlugin.handle_pipeline_response', params={'raw': 'mv'}, self_cls='HttpProxyPlugin',
                 assumed=True, modifies=['self.pipeline_response'], raises={},
                 note='bookkeeping only (A-PARSE)')
    reg.contract('<env>', 'ConnPool.release', params={'conn': ('obj', 'TcpServerConnection')}, self_cls='ConnPool',
                 assumed=True, modifies=[], raises={}, note='upstream connection pool (out of scope: requires not enable_conn_pool)')
    reg.contract(SV, 'HttpProxyPlugin.emit_response_events', params={'chunk_size': 'int'}, self_cls='HttpProxyPlugin',
                 assumed=True, modifies=[], raises={}, note='event publication: out of scope here (C18)')


PP_PRE = [('client-inv', 'self.client._num_buffer == len(self.client.buffer)'),
          ('upstream-inv', 'isnone(self.upstream) or self.upstream._num_buffer == len(self.upstream.buffer)'),
          ('upstream-conn', 'isnone(self.upstream) or self.upstream.closed or not isnone(self.upstream._conn)'),
          ('distinct', 'True')]
