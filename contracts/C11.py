"""C11 — TLS interception: valid per-host certificate, never trust a bad upstream (REDUCED).

What contracts can pin is what is handed to ssl / openssl; what those do with it is E-SSL.
ghost hs_*: the verification parameters in force when the upstream handshake is started."""
from pyvc.engine import LoopSpec
from pyvc.vals import HObj, VInt, VBool, VOpt, VStr, NONE
from . import externs, handler, proxyplugin

CS = 'proxy/core/connection/server.py'
SV = 'proxy/http/proxy/server.py'
PK = 'proxy/common/pki.py'
LEVEL = 'proof'
ASSUMPTIONS = ['E-SSL: SSLContext.wrap_socket enforces verify_mode / check_hostname / cafile / server_hostname as documented; '
               'openssl honours subjectAltName and -CA/-CAkey',
               'handshake, chain building, expiry, the leaf actually issued and the on-disk certificate cache are NOT covered']
HS = {'hs_verify_mode': 'int', 'hs_check_hostname': 'bool', 'hs_server_hostname': ('opt', 'str'),
      'hs_cafile': ('opt', 'str'), 'handshakes': 'int', 'hs_extra_trust': 'bool'}


def add_ssl(reg):
    import ssl
    import z3
    reg.klass('SSLContext', py=None, fields={'cafile': ('opt', 'str'), 'check_hostname': 'bool', 'verify_mode': 'int',
                                              'options': 'int', 'extra_trust': 'bool'})

    def create_default_context(ex, st, args, kwargs, fr):
        ca = kwargs.get('cafile', NONE)
        ref = st.alloc(HObj('SSLContext', {'cafile': ca, 'check_hostname': VBool(True),
                                           'verify_mode': VInt(int(ssl.CERT_REQUIRED)),
                                           'options': VInt(0), 'extra_trust': VBool(False)}, None))
        return ex.val(ref, st)
    reg.externs['ssl.create_default_context'] = create_default_context
    # every SSLContext method that adds trust anchors beyond the cafile given at creation
    for meth, params in (('load_default_certs', {'purpose': ('any',)}), ('set_default_verify_paths', {}),
                         ('load_verify_locations', {'cafile': ('opt', 'str'), 'capath': ('opt', 'str'), 'cadata': ('any',)})):
        reg.contract('<env>', 'SSLContext.' + meth, self_cls='SSLContext', assumed=True, params=params, modifies=['self.extra_trust'],
                     ensures=['self.extra_trust'], raises={'OSError': []}, note='E-SSL: widens the set of trusted roots')
    reg.contract('<env>', 'SSLContext.wrap_socket', self_cls='SSLContext', assumed=True,
                 params={'sock': ('opaque', 'Socket'), 'server_hostname': ('opt', 'str')},
                 result=('opaque', 'Socket'), modifies=[], ghost_init=HS,
                 ensures=['hs_verify_mode == self.verify_mode', 'hs_check_hostname == self.check_hostname',
                          'hs_server_hostname == server_hostname', 'hs_cafile == self.cafile', 'hs_extra_trust == self.extra_trust',
                          'handshakes == old(handshakes) + 1'],
                 raises={'ssl.SSLCertVerificationError': ['handshakes == old(handshakes) + 1'],
                         'ssl.SSLError': ['handshakes == old(handshakes) + 1'],
                         'OSError': ['handshakes == old(handshakes) + 1']},
                 note='E-SSL')
    reg.classes['Socket'] = dict(py='socket:socket', fields={}, inv=[], ghost={})
    reg.classes['SSLSocket'] = dict(py='ssl:SSLSocket', fields={}, inv=[], ghost={})
    for cls in ('Socket', 'SSLSocket'):
        reg.contract('<env>', cls + '.setblocking', params={'flag': 'bool'}, self_cls=cls, assumed=True,
                     modifies=[], raises={})
    from pyvc.engine import SpecFun
    reg.specfuns['isinst_SSLSocket'] = SpecFun('isinst_SSLSocket', [('opaque', 'Socket')], 'bool')
    reg.contracts['SSLContext.wrap_socket'].ensures.append(('tls', 'isinst_SSLSocket(result)'))


def build(reg):
    handler.add_handler(reg)
    externs.add_text(reg)
    externs.add_ipaddress(reg)
    add_ssl(reg)
    T = []
    T.append(reg.contract(
        CS, 'TcpServerConnection.wrap', self_cls='TcpServerConnection', ghost_init=HS,
        params={'hostname': ('opt', 'str'), 'ca_file': ('opt', 'str'), 'as_non_blocking': 'bool', 'verify_mode': 'int'},
        requires=[('connected', 'not isnone(self._conn)'), ('mode', 'verify_mode == 0 or verify_mode == 1 or verify_mode == 2')],
        modifies=['self._conn'],
        ensures=[('one-handshake', 'handshakes == old(handshakes) + 1'),
                 ('verification-as-requested', 'hs_verify_mode == verify_mode'),
                 ('hostname-checked-unless-disabled',
                  '(verify_mode != 0 and not isnone(hostname)) ==> (hs_check_hostname and hs_server_hostname == hostname)'),
                 ('trust-store', 'hs_cafile == ca_file'),
                 ('nothing-but-the-configured-ca-file-is-trusted', 'not hs_extra_trust'),
                 ('upgraded', 'not isnone(self._conn) and isinst_SSLSocket(self._conn)')],
        raises={'ssl.SSLError': [('one-handshake', 'handshakes == old(handshakes) + 1')],
                'OSError': [('one-handshake', 'handshakes == old(handshakes) + 1')]}))
    fl = dict(reg.classes['Flags']['fields'])
    fl.update({'insecure_tls_interception': 'bool', 'ca_file': ('opt', 'str')})
    reg.klass('Flags', py=None, fields=fl)
    proxyplugin.add_parser_class(reg)
    reg.klass('HttpProxyPlugin', py='proxy.http.proxy.server:HttpProxyPlugin', fields={
        'client': ('obj', 'HttpClientConnection'), 'upstream': ('opt', ('obj', 'TcpServerConnection')),
        'request': ('obj', 'HttpParser'), 'flags': ('obj', 'Flags')})
    T.append(reg.contract(
        SV, 'HttpProxyPlugin.wrap_server', self_cls='HttpProxyPlugin', ghost_init=HS, result='bool',
        requires=[('upstream', 'not isnone(self.upstream) and not isnone(self.upstream._conn) and '
                               'not isinst_SSLSocket(self.upstream._conn)'),
                  ('connect-target', 'not isnone(self.request.host) and len(self.request.host) > 0')],
        modifies=['self.upstream._conn'],
        ensures=[('verified-unless-operator-disabled',
                  '(not result and not self.flags.insecure_tls_interception) ==> '
                  '(hs_verify_mode == 2 and hs_check_hostname and hs_cafile == self.flags.ca_file and '
                  ' not isnone(self.request.host) and hs_server_hostname == utf8dec(self.request.host))'),
                 ('handshake-happened', 'not result ==> handshakes == old(handshakes) + 1'),
                 ('reachable-success', 'True'),
                 ('insecure-only-on-request', 'self.flags.insecure_tls_interception or result or hs_verify_mode == 2')],
        raises={'OSError': [], 'UnicodeDecodeError': [('no-handshake', 'handshakes == old(handshakes)')],
                'AssertionError': []}))
    T.append(reg.contract(
        PK, 'get_ext_config', params={'alt_subj_names': ('opt', ('list', 'str')), 'extended_key_usage': ('opt', 'str')},
        result='bytes', modifies=[],
        requires=[('one-name', 'not isnone(alt_subj_names) and len(alt_subj_names) == 1 and isnone(extended_key_usage)'),
                  ('not-bracketed', "not alt_subj_names[0].startswith('[')")],
        ensures=[('ip-literal-gets-IP-SAN', "is_ip_literal(alt_subj_names[0]) ==> "
                                            "result == b'\\nsubjectAltName=IP:' + utf8enc(alt_subj_names[0])"),
                 ('name-gets-DNS-SAN', "not is_ip_literal(alt_subj_names[0]) ==> "
                                       "result == b'\\nsubjectAltName=DNS:' + utf8enc(alt_subj_names[0])")],
        raises={}, loops={0: LoopSpec(unroll=1)}))
    return T


CROSSCHECK = ['get_ext_config']
