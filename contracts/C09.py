"""C09 — plugins run in configured order with the documented chaining semantics.

ghost bu_log / hc_log: identities of the plugins whose before_upstream_connection /
handle_client_request hook ran, in call order.  Lifecycle (close hook exactly once on every way
a connection ends): HttpProtocolHandler.shutdown, shared with C10."""
from pyvc.engine import LoopSpec
from . import C08, C10, handler, proxyplugin

SV = 'proxy/http/proxy/server.py'
HH = 'proxy/http/handler.py'
ASSUMPTIONS = ['plugin load order (defaults, auth, requested) is Plugins.load / FlagParser.initialize: not under contract here']
DV = 'dvals(keys(self.plugins), mapof(self.plugins), %s)'


def build(reg):
    from . import externs
    externs.add_dict_values(reg)
    from . import C04
    T10 = C10.build(reg)
    T4 = C04.build(reg)         # = C08's contracts + the follow-up chain of on_client_data (hook logging already in place)
    T = [reg.contracts[n] for n in ('AuthPlugin.before_upstream_connection', 'HttpParser.del_header', 'HttpParser.del_headers',
                                    'HttpProxyPlugin.on_request_complete')]
    T += [c for c in T4 if c.qualname == 'HttpProxyPlugin.on_client_data']
    orc = reg.contracts['HttpProxyPlugin.on_request_complete']
    bu = reg.contracts['ProxyBasePlugin.before_upstream_connection']
    bu.ghost_init = dict(bu.ghost_init, bu_log=('seq', 'int'))
    bu.ensures = bu.ensures + [('logged', 'bu_log == old(bu_log) + [self]')]
    bu.raises = {'Exception': bu.raises['Exception'] + [('logged', 'bu_log == old(bu_log) + [self]')]}
    hc = reg.contracts['ProxyBasePlugin.handle_client_request']      # C04 already logs every call in hc_log (normal and raising exits)
    assert any(nm == 'logged' for nm, _ in hc.ensures)
    orc.ghost_init = dict(orc.ghost_init, bu_log=('seq', 'int'), hc_log=('seq', 'int'))
    N = 'len(self.plugins)'
    orc.ensures = orc.ensures + [
        ('before-upstream-hooks-in-configured-order',
         'bu_log == old(bu_log) + ' + DV % 'len(bu_log) - len(old(bu_log))'),
        ('each-plugin-at-most-once', 'len(bu_log) - len(old(bu_log)) <= %s and len(hc_log) - len(old(hc_log)) <= %s' % (N, N)),
        ('dropped-request-means-no-upstream', '(len(bu_log) - len(old(bu_log)) < %s) ==> connects == old(connects)' % N),
        ('all-consulted-before-connect', 'connects > old(connects) ==> len(bu_log) - len(old(bu_log)) == %s' % N),
        ('client-request-hooks-in-configured-order',
         'hc_log == old(hc_log) + ' + DV % 'len(hc_log) - len(old(hc_log))'),
        ('dropped-client-request-forwards-nothing',
         '(len(hc_log) - len(old(hc_log)) < %s) ==> (isnone(self.upstream) or len(self.upstream.buffer) == 0)' % N)]
    l0, l1 = orc.loops[0], orc.loops[1]
    l0.modifies = l0.modifies + ['bu_log', 'bu_raised']
    l0.inv = l0.inv + ['bu_log == old(bu_log) + ' + DV % 'i', 'hc_log == old(hc_log)', 'i >= 0']
    l1.modifies = l1.modifies + ['hc_log']
    l1.inv = l1.inv + ['hc_log == old(hc_log) + ' + DV % 'i', 'i >= 0',
                       'bu_log == old(bu_log) + ' + DV % 'len(bu_log) - len(old(bu_log))',
                       'len(bu_log) - len(old(bu_log)) <= %s' % N,
                       '(len(bu_log) - len(old(bu_log)) < %s) ==> connects == old(connects)' % N,
                       'connects > old(connects) ==> len(bu_log) - len(old(bu_log)) == %s' % N]
    orc.raises = {'Exception': orc.raises['Exception'] + [
        ('rejection-ends-the-chain', '(bu_raised and not old(bu_raised)) ==> hc_log == old(hc_log)')]}
    # lifecycle: the protocol handler's shutdown (C10's contract, re-proved here)
    T += [c for c in T10 if c.qualname in ('HttpProtocolHandler.shutdown', 'HttpProtocolHandler._flush')]
    return T
