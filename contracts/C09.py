"""C09 — plugins run in configured order with the documented chaining semantics.

ghost bu_log / hc_log: identities of the plugins whose before_upstream_connection /
handle_client_request hook ran, in call order.  Lifecycle (close hook exactly once on every way
a connection ends): HttpProtocolHandler.shutdown, shared with C10."""
from pyvc.engine import LoopSpec
from . import C08, C10, handler, proxyplugin

SV = 'proxy/http/proxy/server.py'
HH = 'proxy/http/handler.py'
ASSUMPTIONS = ['plugin load order (defaults, auth, requested) is Plugins.load / FlagParser.initialize: not under contract here']
DV = 'dvals(keys(self.plugins), mapof(self.plugins), %s)'


def build(reg):
    from . import externs
    externs.add_dict_values(reg)
    from . import C04
    T10 = C10.build(reg)
    T4 = C04.build(reg)         # = C08's contracts + the follow-up chain of on_client_data (hook logging already in place)
    T = [reg.contracts[n] for n in ('AuthPlugin.before_upstream_connection', 'HttpParser.del_header', 'HttpParser.del_headers',
                                    'HttpProxyPlugin.on_request_complete')]
    T += [c for c in T4 if c.qualname == 'HttpProxyPlugin.on_client_data']
    orc = reg.contracts['HttpProxyPlugin.on_request_complete']
    bu = reg.contracts['ProxyBasePlugin.before_upstream_connection']
    bu.ghost_init = dict(bu.ghost_init, bu_log=('seq', 'int'))
    bu.ensures = bu.ensures + [('logged', 'bu_log == old(bu_log) + [self]')]
    bu.raises = {'Exception': bu.raises['Exception'] + [('logged', 'bu_log == old(bu_log) + [self]')]}
    hc = reg.contracts['ProxyBasePlugin.handle_client_request']      # C04 already logs every call in hc_log (normal and raising exits)
    assert any(nm == 'logged' for nm, _ in hc.ensures)
    orc.ghost_init = dict(orc.ghost_init, bu_log=('seq', 'int'), hc_log=('seq', 'int'))
    N = 'len(self.plugins)'
    orc.ensures = orc.ensures + [
        ('before-upstream-hooks-in-configured-order',
         'bu_log == old(bu_log) + ' + DV % 'len(bu_log) - len(old(bu_log))'),
        ('each-plugin-at-most-once', 'len(bu_log) - len(old(bu_log)) <= %s and len(hc_log) - len(old(hc_log)) <= %s' % (N, N)),
        ('dropped-request-means-no-upstream', '(len(bu_log) - len(old(bu_log)) < %s) ==> connects == old(connects)' % N),
        ('all-consulted-before-connect', 'connects > old(connects) ==> len(bu_log) - len(old(bu_log)) == %s' % N),
        ('client-request-hooks-in-configured-order',
         'hc_log == old(hc_log) + ' + DV % 'len(hc_log) - len(old(hc_log))'),
        ('dropped-client-request-forwards-nothing',
         '(len(hc_log) - len(old(hc_log)) < %s) ==> (isnone(self.upstream) or len(self.upstream.buffer) == 0)' % N)]
    l0, l1 = orc.loops[0], orc.loops[1]
    l0.modifies = l0.modifies + ['bu_log', 'bu_raised']
    l0.inv = l0.inv + ['bu_log == old(bu_log) + ' + DV % 'i', 'hc_log == old(hc_log)', 'i >= 0']
    l1.modifies = l1.modifies + ['hc_log']
    l1.inv = l1.inv + ['hc_log == old(hc_log) + ' + DV % 'i', 'i >= 0',
                       'bu_log == old(bu_log) + ' + DV % 'len(bu_log) - len(old(bu_log))',
                       'len(bu_log) - len(old(bu_log)) <= %s' % N,
                       '(len(bu_log) - len(old(bu_log)) < %s) ==> connects == old(connects)' % N,
                       'connects > old(connects) ==> len(bu_log) - len(old(bu_log)) == %s' % N]
    # a hook returning None ends the chain (no later hook is called) and suppresses the upstream connection:
    # ghost bu_none = "the last before_upstream_connection hook returned None" (seed C09c: a loop without
    # the `break` consulted every plugin, so the clauses counting consulted plugins held vacuously)
    bu.ghost_init = dict(bu.ghost_init, bu_none='bool')
    bu.requires = bu.requires + [('no-hook-after-one-returned-none', 'not bu_none')]
    bu.ensures = bu.ensures + [('none-seen', 'bu_none == isnone(result)')]
    orc.ghost_init = dict(orc.ghost_init, bu_none='bool')
    orc.requires = orc.requires + [('fresh-chain', 'not bu_none')]
    orc.ensures = orc.ensures + [('none-ends-the-chain-and-suppresses-upstream', 'bu_none ==> connects == old(connects)')]
    l0.modifies = l0.modifies + ['bu_none']
    l0.inv = l0.inv + ['not bu_none']
    l1.inv = l1.inv + ['bu_none ==> connects == old(connects)']
    # the same for the handle_client_request chains (first request: loop 1 of on_request_complete; follow-ups:
    # on_client_data): ghost hc_none, no hook after one returned None, and then nothing is forwarded
    hc.ghost_init = dict(hc.ghost_init, hc_none='bool')
    hc.requires = hc.requires + [('no-hook-after-one-returned-none', 'not hc_none')]
    hc.ensures = hc.ensures + [('none-seen', 'hc_none == isnone(result)')]
    orc.ghost_init = dict(orc.ghost_init, hc_none='bool')
    orc.requires = orc.requires + [('fresh-client-request-chain', 'not hc_none')]
    orc.ensures = orc.ensures + [('none-ends-the-client-request-chain-and-forwards-nothing',
                                  'hc_none ==> (isnone(self.upstream) or len(self.upstream.buffer) == 0)')]
    l0.inv = l0.inv + ['not hc_none']
    l1.modifies = l1.modifies + ['hc_none']
    l1.inv = l1.inv + ['not hc_none']
    for ocd in T:
        if ocd.qualname == 'HttpProxyPlugin.on_client_data':
            ocd.ghost_init = dict(ocd.ghost_init, hc_none='bool')
            ocd.requires = ocd.requires + [('fresh-client-request-chain', 'not hc_none')]
    orc.raises = {'Exception': orc.raises['Exception'] + [
        ('rejection-ends-the-chain', '(bu_raised and not old(bu_raised)) ==> hc_log == old(hc_log)')]}
    # lifecycle: the protocol handler's shutdown (C10's contract, re-proved here)
    T += [c for c in T10 if c.qualname in ('HttpProtocolHandler.shutdown', 'HttpProtocolHandler._flush')]
    T += access_log_contracts(reg)
    return T


def access_log_contracts(reg):
    """The lifecycle chains at the end of HttpProxyPlugin.on_client_connection_close (statements
    `log_handled = False` .. the on_upstream_connection_close loop): on_access_log hooks in configured
    order, each at most once, each handed the context the previous one returned, a hook returning None
    ends the chain and suppresses the default access log, otherwise the default log gets the last
    context exactly once; then every plugin's on_upstream_connection_close exactly once, in order.
    `context` (built by the statements before the slice) is a symbolic opaque value."""
    CTX = ('opaque', 'LogCtx')
    G = {'al_log': ('seq', 'int'), 'uc_log': ('seq', 'int'), 'deflog': ('seq', 'int'), 'cur_ctx': 'int', 'al_none': 'bool'}
    reg.contract('<plugin>', 'ProxyBasePlugin.on_access_log', params={'context': CTX}, self_cls='ProxyBasePlugin', assumed=True,
                 modifies=[], result=('opt', CTX), ghost_init={'al_log': ('seq', 'int'), 'cur_ctx': 'int', 'al_none': 'bool'},
                 requires=[('receives-the-context-returned-by-the-previous-hook', 'evid(context) == cur_ctx'),
                           ('chain-not-ended', 'not al_none')],
                 ensures=[('logged', 'al_log == old(al_log) + [self]'), ('none-seen', 'al_none == isnone(result)'),
                          ('hands-on', 'cur_ctx == (old(cur_ctx) if isnone(result) else evid(result))')],
                 raises={}, note='user plugin hook: any result; assumed not to raise here (F16)')
    uc = reg.contracts['ProxyBasePlugin.on_upstream_connection_close']
    uc.ghost_init = dict(uc.ghost_init, uc_log=('seq', 'int'))
    uc.ensures = uc.ensures + [('logged', 'uc_log == old(uc_log) + [self]')]
    reg.contract(SV, 'HttpProxyPlugin.access_log', params={'log_attrs': CTX}, self_cls='HttpProxyPlugin', assumed=True,
                 modifies=[], ghost_init={'deflog': ('seq', 'int')},
                 ensures=[('logged', 'deflog == old(deflog) + [evid(log_attrs)]')], raises={},
                 note='the default access log line (logging only)')
    N = 'len(self.plugins)'
    NAL = '(len(al_log) - len(old(al_log)))'
    return [reg.contract(
        SV, 'HttpProxyPlugin.on_client_connection_close', self_cls='HttpProxyPlugin', ghost={'context': CTX}, ghost_init=G,
        body_slice=('log_handled = False', 'plugin.on_upstream_connection_close()'),
        requires=[('chain-starts-with-the-built-context', 'cur_ctx == evid(context)'), ('fresh-chain', 'not al_none')],
        modifies=[],
        ensures=[('access-log-hooks-in-configured-order', 'al_log == old(al_log) + ' + DV % NAL),
                 ('each-access-log-hook-at-most-once', '%s <= %s' % (NAL, N)),
                 ('none-ends-the-chain-and-suppresses-the-default-log', 'al_none ==> deflog == old(deflog)'),
                 ('default-log-once-with-the-last-context-otherwise',
                  '(not al_none) ==> (deflog == old(deflog) + [cur_ctx] and %s == %s)' % (NAL, N)),
                 ('upstream-close-hook-of-every-plugin-exactly-once-in-order', 'uc_log == old(uc_log) + ' + DV % N)],
        raises={},
        loops={0: LoopSpec(index='i', modifies=['context', 'ctx', 'log_handled', 'al_log', 'cur_ctx', 'al_none'],
                           inv=['al_log == old(al_log) + ' + DV % 'i', 'i >= 0', 'cur_ctx == evid(context)', 'not al_none',
                                'not log_handled']),
               1: LoopSpec(index='i', modifies=['uc_log'], inv=['uc_log == old(uc_log) + ' + DV % 'i', 'i >= 0'])})]
