"""Spec functions and environment contracts shared by several properties."""
import z3
from pyvc.engine import SpecFun, Registry
from pyvc.vals import sort_of

SeqStr = z3.SeqSort(z3.StringSort())


def add_flat(reg):
    """flat(list of byte strings) = their concatenation (b''.join)."""
    sf = SpecFun('flat', [('list', 'bytes')], 'bytes', pyimpl=lambda xs: b''.join(bytes(x) for x in xs))

    def unfold1(s):
        n = z3.Length(s)
        return sf.decl(s) == z3.If(n == 0, z3.StringVal(''),
                                   z3.Concat(s[0], sf.decl(z3.SubSeq(s, 1, n - 1))))

    def unfold(s):
        n = z3.Length(s)
        tail = z3.SubSeq(s, 1, n - 1)
        return [unfold1(s), unfold1(tail)]
    sf.unfold = unfold
    reg.specfuns['flat'] = sf
    return sf


SEND_EXCEPTIONS = ['BlockingIOError', 'ssl.SSLWantWriteError', 'ssl.SSLWantReadError', 'BrokenPipeError',
                   'ConnectionResetError', 'TimeoutError', 'OSError']


def add_tcp_connection(reg):
    """Field table of TcpConnection and the environment contract E-SEND on TcpConnection.send.

    ghost wire: bytes the kernel has accepted from this connection object (extended only by send)
    ghost Q:    concatenation of every argument ever passed to queue()"""
    fields = {'buffer': ('list', 'mv'), '_num_buffer': 'int', 'closed': 'bool', '_reusable': 'bool',
              'tag': 'str'}
    ghost = {'wire': 'bytes', 'Q': 'bytes'}
    for name, py in (('TcpConnection', 'proxy.core.connection.connection:TcpConnection'),
                     ('TcpClientConnection', 'proxy.core.connection.client:TcpClientConnection'),
                     ('TcpServerConnection', 'proxy.core.connection.server:TcpServerConnection'),
                     ('HttpClientConnection', 'proxy.http.connection:HttpClientConnection')):
        reg.klass(name, py=py, fields=dict(fields), ghost=dict(ghost))
    reg.contract(
        'proxy/core/connection/connection.py', 'TcpConnection.send',
        params={'data': 'mv'}, result='int', assumed=True, self_cls='TcpConnection',
        modifies=['self.wire'],
        ensures=[('range', '0 <= result and result <= len(data)'),
                 ('wire', 'self.wire == old(self.wire) + data[:result]')],
        raises={e: [] for e in SEND_EXCEPTIONS},
        note='E-SEND: socket.send accepts a prefix of the data or raises without sending')
    reg.assumptions.append('E-SEND: sock.send(d) returns n with 0<=n<=len(d) and puts exactly d[:n] on the wire, '
                           'or raises an OSError subclass having sent nothing')
