"""C16 — WebSocket frames round-trip for every size and flag combination.

Spec function wsframe(...) is RFC 6455 section 5.2 written independently of the
code; build() must return exactly it, parse() must invert it.  xormask is the
masking transform, defined by right recursion; apply_mask's loop refines it."""
import z3

from pyvc.engine import LoopSpec, SpecFun
from pyvc.vals import sort_of
from . import externs

F = 'proxy/http/websocket/frame.py'
EXPLANATION = ('every obligation is generated from the real WebsocketFrame source; payload lengths are unbounded '
               'mathematical integers (no size sampling)')
ASSUMPTIONS = ['E-CODEC: hashlib.sha1 and base64.b64encode are the standard functions (uninterpreted symbols)',
               'bytes values are strings over code points 0..255 (is_bytes) — stated as precondition where needed']

W = 16


def bxor(a, b):
    return z3.BV2Int(z3.Int2BV(a, W) ^ z3.Int2BV(b, W), False)


def add_xormask(reg):
    sf = SpecFun('xormask', ['bytes', 'bytes'], 'bytes',
                 pyimpl=lambda d, m: bytes(b ^ m[i % 4] for i, b in enumerate(d)))

    def unfold1(d, m):
        n = z3.Length(d)
        last = z3.StrToCode(z3.SubString(d, n - 1, 1))
        key = z3.StrToCode(z3.SubString(m, (n - 1) % 4, 1))
        return [sf.decl(d, m) == z3.If(n == 0, z3.StringVal(''),
                                       z3.Concat(sf.decl(z3.SubString(d, 0, n - 1), m),
                                                 z3.StrFromCode(bxor(last, key)))),
                z3.Length(sf.decl(d, m)) == n]
    sf.unfold = unfold1
    reg.specfuns['xormask'] = sf

    def wsframe(fin, r1, r2, r3, op, masked, key, payload):
        b = lambda x: z3.If(x, 1, 0)     # noqa: E731
        n = z3.Length(payload)
        b0 = 128 * b(fin) + 64 * b(r1) + 32 * b(r2) + 16 * b(r3) + op
        L = z3.If(n < 126, n, z3.If(n < 65536, z3.IntVal(126), z3.IntVal(127)))
        ext = z3.If(n < 126, z3.StringVal(''), z3.If(n < 65536, externs.be(n, 2), externs.be(n, 8)))
        b1 = 128 * b(masked) + L
        body = z3.If(masked, z3.Concat(key, sf.decl(payload, key)), payload)
        return z3.Concat(z3.StrFromCode(b0), z3.StrFromCode(b1), ext, body)
    reg.specfuns['wsframe'] = SpecFun('wsframe', ['bool'] * 4 + ['int', 'bool', 'bytes', 'bytes'], 'bytes',
                                      define=wsframe,
                                      unfold=lambda *a: sf.unfold(a[7], a[6]) + externs.be64_axioms(z3.Length(a[7])))


FIELDS = {'fin': 'bool', 'rsv1': 'bool', 'rsv2': 'bool', 'rsv3': 'bool', 'opcode': 'int', 'masked': 'bool',
          'payload_length': ('opt', 'int'), 'mask': ('opt', 'bytes'), 'data': ('opt', 'bytes')}


def build(reg):
    externs.add_codec_specfuns(reg)
    externs.add_struct(reg)
    externs.add_bytesio(reg)
    externs.add_misc(reg)
    add_xormask(reg)
    reg.klass('WebsocketFrame', py='proxy.http.websocket.frame:WebsocketFrame', fields=FIELDS)
    T = []
    T.append(reg.contract(
        F, 'WebsocketFrame.apply_mask', params={'data': 'bytes', 'mask': 'bytes'}, result='bytes', modifies=[],
        requires=[('mask4', 'len(mask) == 4'), ('bytes', 'is_bytes(data) and is_bytes(mask)')],
        ensures=[('xormask', 'result == xormask(data, mask)'), ('len', 'len(result) == len(data)')],
        loops={0: LoopSpec(index='k', modifies=['raw'],
                           inv=[('len', 'len(raw) == len(data)'),
                                ('prefix', 'raw == xormask(data[:k], mask) + data[k:]'),
                                ('range', '0 <= k and k <= len(data)')])},
        lemmas=['data[:len(data)] == data']))
    # payload of the frame being built: data if present else empty
    PAY = "(b'' if isnone(old(self.data)) else old(self.data))"
    T.append(reg.contract(
        F, 'WebsocketFrame.build', self_cls='WebsocketFrame', result='bytes',
        modifies=['self.payload_length'],
        requires=[('opcode', '0 <= self.opcode and self.opcode < 16'),
                  ('mask-given', 'self.masked ==> (not isnone(self.mask) and len(self.mask) == 4 and is_bytes(self.mask))'),
                  ('len-consistent', 'isnone(self.payload_length) or self.payload_length == len(%s)' % PAY.replace('old(self.data)', 'self.data')),
                  ('bytes', 'isnone(self.data) or is_bytes(self.data)'),
                  ('size', 'isnone(self.data) or len(self.data) < 18446744073709551616')],
        ensures=[('rfc6455', 'result == wsframe(self.fin, self.rsv1, self.rsv2, self.rsv3, self.opcode, self.masked, '
                             "(b'' if isnone(self.mask) else self.mask), %s)" % PAY),
                 ('length-field', 'self.payload_length == len(%s)' % PAY)],
        raises={}))
    # parse inverts wsframe for every field combination, every payload and every trailing byte string
    G = {'g_fin': 'bool', 'g_r1': 'bool', 'g_r2': 'bool', 'g_r3': 'bool', 'g_op': 'int', 'g_masked': 'bool',
         'g_key': 'bytes', 'g_payload': 'bytes', 'g_tail': 'bytes'}
    T.append(reg.contract(
        F, 'WebsocketFrame.parse', self_cls='WebsocketFrame', params={'raw': 'bytes'}, result='bytes', ghost=G,
        modifies=['self.fin', 'self.rsv1', 'self.rsv2', 'self.rsv3', 'self.opcode', 'self.masked',
                  'self.payload_length', 'self.mask', 'self.data'],
        requires=[('wire', 'raw == wsframe(g_fin, g_r1, g_r2, g_r3, g_op, g_masked, g_key, g_payload) + g_tail'),
                  ('opcode', '0 <= g_op and g_op < 16'),
                  ('key', 'len(g_key) == 4 and is_bytes(g_key)'),
                  ('payload', 'is_bytes(g_payload) and len(g_payload) < 18446744073709551616')],
        ensures=[('flags', 'self.fin == g_fin and self.rsv1 == g_r1 and self.rsv2 == g_r2 and self.rsv3 == g_r3'),
                 ('opcode', 'self.opcode == g_op'),
                 ('masked', 'self.masked == g_masked'),
                 ('length', 'self.payload_length == len(g_payload)'),
                 ('payload', 'self.data == g_payload'),
                 ('key', 'g_masked ==> self.mask == g_key'),
                 ('rest', 'result == g_tail')],
        raises={},
        cases=[('small-plain', 'len(g_payload) < 126 and not g_masked'),
               ('small-masked', 'len(g_payload) < 126 and g_masked'),
               ('mid-plain', '126 <= len(g_payload) and len(g_payload) < 65536 and not g_masked'),
               ('mid-masked', '126 <= len(g_payload) and len(g_payload) < 65536 and g_masked'),
               ('big-plain', '65536 <= len(g_payload) and not g_masked'),
               ('big-masked', '65536 <= len(g_payload) and g_masked')],
        prune=True,
        hints=[('small-plain', 'raw[2:2 + len(g_payload)] == g_payload and raw[2 + len(g_payload):] == g_tail'),
               ('small-masked', 'raw[2:6] == g_key and raw[6:6 + len(g_payload)] == xormask(g_payload, g_key) '
                                'and raw[6 + len(g_payload):] == g_tail'),
               ('mid-plain', 'raw[2] * 256 + raw[3] == len(g_payload)'),
               ('mid-plain', 'raw[4:4 + len(g_payload)] == g_payload and raw[4 + len(g_payload):] == g_tail'),
               ('mid-masked', 'raw[2:4] == be16(len(g_payload))'),
               ('mid-masked', 'raw[2:3] == chr8(len(g_payload) // 256) and raw[3:4] == chr8(len(g_payload) % 256)'),
               ('mid-masked', 'raw[2] == len(g_payload) // 256 and raw[3] == len(g_payload) % 256'),
               ('mid-masked', 'raw[2] * 256 + raw[3] == len(g_payload)'),
               ('mid-masked', 'raw[4:8] == g_key and raw[8:8 + len(g_payload)] == xormask(g_payload, g_key) '
                              'and raw[8 + len(g_payload):] == g_tail'),
               ('big-plain', 'raw[2:10] == be64(len(g_payload))'),
               ('big-plain', 'raw[10:10 + len(g_payload)] == g_payload and raw[10 + len(g_payload):] == g_tail'),
               ('big-masked', 'raw[2:10] == be64(len(g_payload))'),
               ('big-masked', 'raw[10:14] == g_key and raw[14:14 + len(g_payload)] == xormask(g_payload, g_key) '
                              'and raw[14 + len(g_payload):] == g_tail')],
        uses=['xormask(xormask(g_payload, g_key), g_key) == g_payload',
              'is_bytes(xormask(g_payload, g_key))']))
    T.append(reg.contract(
        F, 'WebsocketFrame.reset', self_cls='WebsocketFrame', modifies=list('self.' + f for f in FIELDS),
        ensures=[('cleared', 'not self.fin and not self.rsv1 and not self.rsv2 and not self.rsv3 and self.opcode == 0 '
                             'and not self.masked and isnone(self.payload_length) and isnone(self.mask) and isnone(self.data)')]))
    return T


ASSUMED_LEMMAS = [
    'xormask_involution: len(m)==4 and is_bytes(d) and is_bytes(m) ==> xormask(xormask(d,m),m) == d  '
    '(induction step not discharged by z3/cvc5 within 60 s; base case and the pointwise facts were; bounded check below)',
    'xormask_bytes: is_bytes(xormask(d,m)) under the same hypotheses (same status)']
ASSUMPTIONS += ['assumed lemma (bounded check only): ' + x for x in ASSUMED_LEMMAS]


def bounded_checks(reg, tier, seed):
    """Native check of the two assumed spec-level lemmas: exhaustive for every byte string of
    length <= 2 (65 793 strings) x 6 masks, plus random long strings.  Labelled bounded."""
    import itertools
    import random
    xm = reg.specfuns['xormask'].pyimpl
    rnd = random.Random(seed)
    masks = [bytes([0, 0, 0, 0]), bytes([255, 255, 255, 255]), bytes([1, 2, 3, 4]), bytes([128, 127, 0, 255])] + \
        [bytes(rnd.randrange(256) for _ in range(4)) for _ in range(2)]
    n = 0
    bad = []
    for m in masks:
        for ln in range(3):
            for tup in itertools.product(range(256), repeat=ln):
                d = bytes(tup)
                e = xm(d, m)
                n += 1
                if xm(e, m) != d or len(e) != len(d):
                    bad.append({'d': list(d), 'm': list(m)})
    for _ in range(200 if tier == 'quick' else 5000):
        d = bytes(rnd.randrange(256) for _ in range(rnd.randrange(3, 200)))
        m = bytes(rnd.randrange(256) for _ in range(4))
        n += 1
        if xm(xm(d, m), m) != d:
            bad.append({'d': list(d), 'm': list(m)})
    sweep = native_sweep(tier, rnd)
    return [sweep, {'name': 'xormask lemmas (involution, length, byte range)', 'bounded': True,
             'bound': 'all byte strings of length <= 2 x 6 masks, plus random strings up to 200 bytes',
             'cases': n, 'violations': bad[:3]}]


def native_sweep(tier, rnd):
    """Bounded stand-in and counterexample finder for what the solvers leave open (strings of
    length >= 65535 are out of reach of model construction): the real build()/parse() against the
    independent RFC 6455 encoder of replay/specimpl.py at every length-encoding boundary."""
    from proxy.http.websocket.frame import WebsocketFrame
    from replay.specimpl import wsframe
    lens = [0, 1, 2, 124, 125, 126, 127, 128, 65534, 65535, 65536, 65537]
    if tier != 'quick':
        lens += list(range(3, 124, 7)) + [70000, 131072, 1 << 20]
    bad = []
    n = 0
    for L in lens:
        payload = bytes(rnd.randrange(256) for _ in range(min(L, 4096))) * (L // 4096 + 1)
        payload = payload[:L]
        for flags in range(16) if L < 200 else (0, 15, 8):
            for op in ((0, 1, 2, 8, 9, 10, 15) if L < 200 else (2,)):
                for masked in (False, True):
                    f = WebsocketFrame()
                    f.fin, f.rsv1, f.rsv2, f.rsv3 = bool(flags & 8), bool(flags & 4), bool(flags & 2), bool(flags & 1)
                    f.opcode, f.masked, f.data = op, masked, payload
                    f.mask = bytes(rnd.randrange(256) for _ in range(4)) if masked else None
                    want = wsframe(f.fin, f.rsv1, f.rsv2, f.rsv3, op, masked, f.mask or b'', payload)
                    n += 1
                    case = {'len': L, 'flags': flags, 'opcode': op, 'masked': masked}
                    try:
                        got = f.build()
                    except Exception as e:      # noqa
                        bad.append(dict(case, what='build raised %r' % (e,)))
                        continue
                    if got != want:
                        bad.append(dict(case, what='build differs from RFC 6455 encoding', got=got[:12].hex(), want=want[:12].hex()))
                        continue
                    g = WebsocketFrame()
                    tail = b'NEXT'
                    try:
                        rest = g.parse(want + tail)
                    except Exception as e:      # noqa
                        bad.append(dict(case, what='parse raised %r' % (e,)))
                        continue
                    if rest != tail or (g.data or b'') != payload or g.opcode != op or g.masked != masked \
                            or (g.fin, g.rsv1, g.rsv2, g.rsv3) != (f.fin, f.rsv1, f.rsv2, f.rsv3):
                        bad.append(dict(case, what='parse does not invert the RFC 6455 encoding'))
    return {'name': 'native boundary sweep build/parse vs independent RFC 6455 encoder', 'bounded': True,
            'bound': 'payload lengths %s x flag/opcode/mask combinations' % lens[:12], 'cases': n,
            'violations': bad[:3]}


def replay(ob, reg):
    from pyvc import replay as R
    c = reg.contracts.get(ob.func)
    if c is None:
        return {'reproduced': False, 'replay': 'no factory for %s' % ob.func}
    return R.run_case(R.case_from_obl(ob, c, 'wsframe'))


CROSSCHECK = ['WebsocketFrame.apply_mask', 'WebsocketFrame.build', 'WebsocketFrame.reset']
