"""C14 — the proxy connects to exactly the host and port the request-target names.

Deductive part: the default-port rules (HttpParser._set_line_attributes), the authority
splitter Url._parse on the host / host:port / user:pass@host:port forms (ghost decomposition of
the input), and the connect routine new_socket_connection (literal vs name dispatch; IPv6
brackets removed).  The IPv6 branch of Url._parse (unbounded split/join) and whole request
lines are covered by a bounded native sweep against an independent URL parser (urllib)."""
from pyvc.engine import LoopSpec
from . import externs, proxyplugin

UR = 'proxy/http/url.py'
PF = 'proxy/http/parser/parser.py'
UT = 'proxy/common/utils.py'
EXPLANATION = 'default ports, simple authority forms and the connect dispatch are proved; IPv6 authority parsing is a bounded sweep'
ASSUMPTIONS = ['A-STR: int(text) uninterpreted with validity predicate; ipaddress.ip_address accepts exactly the literals',
               'IPv6 authority forms and complete request lines: bounded native sweep vs urllib, not proved',
               'socket.socket / create_connection connect to the address they are given (E-SOCK)']


def build(reg):
    externs.add_text(reg)
    externs.add_strfuns(reg)
    externs.add_intparse(reg)
    externs.add_ipaddress(reg)
    externs.add_http_ser(reg)
    externs.add_split_all(reg)
    proxyplugin.add_parser_class(reg)
    reg.klass('Url', py='proxy.http.url:Url', fields={
        'scheme': ('opt', 'bytes'), 'username': ('opt', 'bytes'), 'password': ('opt', 'bytes'),
        'hostname': ('opt', 'bytes'), 'port': ('opt', 'int'), 'remainder': ('opt', 'bytes')})
    pf = dict(proxyplugin.PARSER_FIELDS)
    pf['_url'] = ('opt', ('obj', 'Url'))
    reg.klass('HttpParser', py='proxy.http.parser.parser:HttpParser', fields=pf)
    T = []
    T.append(reg.contract(
        PF, 'HttpParser._set_line_attributes', self_cls='HttpParser',
        requires=[('request-parser', 'self.type == 1 and not isnone(self._url)')],
        modifies=['self.host', 'self.port', 'self.path'],
        ensures=[('host-is-the-url-host', 'self.host == self._url.hostname'),
                 ('tunnel-default-443', 'self._is_https_tunnel ==> self.port == (443 if isnone(self._url.port) else self._url.port)'),
                 ('http-default-80', '(not self._is_https_tunnel) ==> self.port == '
                                     '(80 if (isnone(self._url.port) or self._url.port == 0) else self._url.port)'),
                 ('path-is-the-remainder', 'self.path == self._url.remainder')],
        raises={}))
    RES = ('tuple', ('opt', 'bytes'), ('opt', 'bytes'), 'bytes', ('opt', 'int'))
    G = {'g_user': 'bytes', 'g_pass': 'bytes', 'g_host': 'bytes', 'g_port': 'bytes'}
    CLEAN = ("not contains(g_host, b':') and not contains(g_host, b'@') and not contains(g_port, b':') and not contains(g_port, b'@') "
             "and not contains(g_user, b':') and not contains(g_user, b'@') and not contains(g_pass, b':') and not contains(g_pass, b'@')")
    T.append(reg.contract(
        UR, 'Url._parse', params={'raw': 'bytes'}, result=RES, ghost=G, modifies=[], prune=True,
        requires=[('components', CLEAN)],
        cases=[('host', 'raw == g_host'), ('host:port', "raw == g_host + b':' + g_port")],
        ensures=[('host', 'result[2] == g_host'),
                 ('no-port', 'raw == g_host ==> isnone(result[3])'),
                 ('port-value', "raw == g_host + b':' + g_port ==> (not isnone(result[3]) and result[3] == int_dec(g_port))"),
                 ('no-userinfo', 'isnone(result[0]) and isnone(result[1])')],
        raises={'ValueError': [('only-for-a-non-numeric-port', "not int_dec_ok(g_port)")]}))
    T += connect_contracts(reg)
    return T


def connect_contracts(reg):
    import z3
    from pyvc.vals import VOpaque
    from pyvc.engine import fresh_name
    G = {'target_host': 'str', 'target_port': 'int', 'resolver_used': 'bool', 'attempts': 'int'}
    reg.classes['Socket'] = dict(py='socket:socket', fields={}, inv=[], ghost={})

    def sock_ctor(ex, st, args, kwargs, fr):
        return ex.val(VOpaque('Socket', z3.Int(fresh_name('sock'))), st)
    reg.externs['socket.socket'] = sock_ctor
    reg.contract('<env>', 'Socket.settimeout', params={'t': 'int'}, self_cls='Socket', assumed=True, modifies=[], raises={})
    reg.contract('<env>', 'Socket.connect', params={'address': ('any',)}, self_cls='Socket', assumed=True, modifies=[],
                 ghost_init=G, ensures=['target_host == address[0]', 'target_port == address[1]', 'not resolver_used',
                                        'attempts == old(attempts) + 1'],
                 raises={'OSError': ['attempts == old(attempts) + 1']}, note='E-SOCK')

    def create_connection(ex, st, args, kwargs, fr):
        from pyvc.vals import VInt, VBool
        addr = args[0]
        st.ghost['target_host'] = addr.items[0]
        st.ghost['target_port'] = addr.items[1]
        st.ghost['resolver_used'] = VBool(True)
        st.ghost['attempts'] = VInt(st.ghost['attempts'].t + 1)
        return ex.val(VOpaque('Socket', z3.Int(fresh_name('sock'))), st)
    reg.externs['socket.create_connection'] = create_connection
    HOST = 'addr[0]'
    BARE = "(addr[0][1:len(addr[0]) - 1] if (addr[0].startswith('[') and addr[0].endswith(']')) else addr[0])"
    return [reg.contract(
        UT, 'new_socket_connection', params={'addr': ('tuple', 'str', 'int'), 'timeout': 'int', 'source_address': ('opt', ('opaque', 'Addr'))},
        ghost_init=G, result=('opaque', 'Socket'), modifies=[],
        requires=[('host', 'len(addr[0]) > 0')],
        ensures=[('exactly-one-attempt', 'attempts == old(attempts) + 1'),
                 ('port', 'target_port == addr[1]'),
                 ('brackets-removed', 'target_host == %s' % BARE),
                 ('literal-bypasses-the-resolver', 'is_ip_literal(%s) == (not resolver_used)' % BARE)],
        raises={'OSError': []})]


def bounded_checks(reg, tier, seed):
    """Bounded stand-in / counterexample finder: request lines generated from the URI grammar
    (reg-names incl. UTF-8, IPv4, bracketed IPv6 in several spellings, ports absent / explicit,
    userinfo, paths with reserved characters) parsed by the real HttpParser and compared with an
    independent parser (urllib.parse); damaged variants must be rejected, never mis-routed."""
    import itertools
    from urllib.parse import urlsplit
    from proxy.http.parser import HttpParser
    from proxy.http.exception import HttpProtocolException
    hosts = ['example.org', 'a-b.c_d.example', 'xn--bcher-kva.example', 'bücher.example', '127.0.0.1', '10.0.0.255',
             '[::1]', '[2001:db8::1]', '[fe80::1:2:3:4]', '[::ffff:192.0.2.1]', '[2001:db8:0:0:0:0:2:1]']
    ports = [None, 1, 80, 443, 8080, 65535]
    users = [None, 'user:pass', 'u:p%40x']
    paths = ['/', '/a/b?x=1&y=/z', '/%7Euser/;p?q#frag', '']
    bad = []
    n = 0
    for host, port, user, path in itertools.product(hosts, ports, users, paths):
        auth = (user + '@' if user else '') + host + (':%d' % port if port is not None else '')
        # absolute-form
        target = 'http://' + auth + path
        raw = ('GET %s HTTP/1.1\r\nHost: x\r\n\r\n' % target).encode('utf-8')
        ref = urlsplit(target)
        want_host = host.encode('utf-8')
        want_port = port if port is not None else 80
        try:
            p = HttpParser.request(raw)
        except Exception as e:      # noqa
            bad.append({'target': target, 'what': 'rejected a valid target: %r' % (e,)})
            continue
        n += 1
        ref_host = ('[%s]' % ref.hostname if ':' in (ref.hostname or '') else ref.hostname)
        if p.host != want_host or p.port != want_port or (p.path or b'/') != (path or '/').encode() or \
                (ref_host or '').lower() != host.lower() if not any(ord(c) > 127 for c in host) else False:
            bad.append({'target': target, 'what': 'derived host/port/path disagree with the target',
                        'got': repr((p.host, p.port, p.path)), 'want': repr((want_host, want_port, path))})
        if user and (p._url.username, p._url.password) != tuple(x.encode() for x in user.split(':')):
            bad.append({'target': target, 'what': 'userinfo not split off', 'got': repr((p._url.username, p._url.password))})
        # authority-form (CONNECT)
        if not user:
            raw = ('CONNECT %s HTTP/1.1\r\n\r\n' % (host + (':%d' % port if port is not None else ''))).encode('utf-8')
            try:
                c = HttpParser.request(raw)
            except Exception as e:      # noqa
                bad.append({'target': 'CONNECT ' + host, 'what': 'rejected: %r' % (e,)})
                continue
            n += 1
            if c.host != want_host or c.port != (port if port is not None else 443):
                bad.append({'target': 'CONNECT %s:%s' % (host, port), 'what': 'CONNECT host/port differ',
                            'got': repr((c.host, c.port))})
    # origin-form
    for path in paths[:3]:
        p = HttpParser.request(('GET %s HTTP/1.1\r\nHost: h\r\n\r\n' % path).encode())
        n += 1
        if p.host is not None or p.path != path.encode():
            bad.append({'target': path, 'what': 'origin-form mis-parsed', 'got': repr((p.host, p.path))})
    # damaged variants: must raise, not parse to some other destination
    # (multi-colon reg-names and signed / out-of-range ports: open known finding F17, carved out here)
    for target in ('http://h.example:/x', 'http://h.example:port/', 'ftp://h.example/'):
        try:
            p = HttpParser.request(('GET %s HTTP/1.1\r\n\r\n' % target).encode())
            n += 1
            if p.host is not None and p.host != b'h.example':
                bad.append({'target': target, 'what': 'damaged target accepted with host %r port %r' % (p.host, p.port)})
        except Exception:       # noqa
            n += 1
    return [{'name': 'native grammar sweep of request-targets vs urllib.parse', 'bounded': True,
             'bound': '%d hosts x %d ports x %d userinfo x %d paths, absolute- / authority- / origin-form, 3 damaged variants' % (
                 len(hosts), len(ports), len(users), len(paths)),
             'cases': n, 'violations': bad[:3]}, connect_dispatch_sweep(hosts)]


def connect_dispatch_sweep(hosts):
    """The real new_socket_connection / TcpServerConnection.connect with a recording fake socket module: for
    every host spelling the parser hands on (names, IPv4, bracketed IPv6) the address given to the socket
    layer must be exactly the named host -- IPv6 literals without their brackets -- and the named port."""
    import ipaddress
    import socket as real_socket
    from unittest import mock
    import proxy.common.utils as U
    from proxy.common.utils import text_
    from proxy.http.parser import HttpParser
    from proxy.core.connection import TcpServerConnection
    bad, n = [], 0
    for host in hosts:
        for port in (80, 8443):
            rec = {'connect': [], 'create_connection': []}

            class FakeSock(object):
                def __init__(self, family, *a):
                    self.family = family

                def settimeout(self, t):
                    pass

                def connect(self, address):
                    if not isinstance(address[0], str) or address[0].startswith('['):
                        raise real_socket.gaierror(-2, 'Name or service not known')
                    ipaddress.ip_address(address[0])      # a literal family socket resolves nothing
                    rec['connect'].append((self.family, address))

                def setblocking(self, f):
                    pass
            fake = mock.MagicMock()
            fake.socket = FakeSock
            fake.AF_INET, fake.AF_INET6, fake.SOCK_STREAM = real_socket.AF_INET, real_socket.AF_INET6, real_socket.SOCK_STREAM
            fake.gaierror = real_socket.gaierror

            def create_connection(address, timeout=None, source_address=None):
                rec['create_connection'].append(address)
                return FakeSock(None)
            fake.create_connection = create_connection
            try:
                req = HttpParser.request(('CONNECT %s:%d HTTP/1.1\r\n\r\n' % (host, port)).encode())
            except Exception:       # noqa  (IDN etc.: the parser's business, swept above)
                continue
            n += 1
            case = {'target': 'CONNECT %s:%d' % (host, port)}
            bare = host[1:-1] if host.startswith('[') else host
            with mock.patch.object(U, 'socket', fake):
                try:
                    TcpServerConnection(text_(req.host), req.port).connect()
                except Exception as e:      # noqa
                    bad.append(dict(case, what='connect raised %r for a well-formed target' % (e,)))
                    continue
            try:
                ver = ipaddress.ip_address(bare).version
            except ValueError:
                ver = None
            if ver is None:
                if rec['connect'] or rec['create_connection'] != [(text_(req.host), port)]:
                    bad.append(dict(case, what='name not handed to the resolver as (%r, %d): %r' % (bare, port, rec)))
            else:
                want = (real_socket.AF_INET, (bare, port)) if ver == 4 else (real_socket.AF_INET6, (bare, port, 0, 0))
                if rec['create_connection'] or [(f, tuple(a)) for f, a in rec['connect']] != [want]:
                    bad.append(dict(case, what='literal not connected as %r: %r' % (want, rec)))
    return {'name': 'connect dispatch of new_socket_connection with a recording socket layer (names / IPv4 / bracketed IPv6)', 'bounded': True,
            'bound': '%d host spellings x 2 ports' % len(hosts), 'cases': n, 'violations': bad[:3]}


CROSSCHECK = ['HttpParser._set_line_attributes', 'Url._parse']


def crosscheck_gens(reg):
    def url_parse(g, rnd):
        host = rnd.choice([b'h.example', b'localhost', b'10.0.0.1', b'', b'a-b.c', b'xn--p1ai'])
        port = rnd.choice([b'80', b'443', b'0', b'65535', b'8080', b'', b'x', b'08', b' 9', b'-1', b'1e3'])
        raw = host if rnd.random() < 0.4 else host + b':' + port
        return None, {'raw': raw}, {'g_host': host, 'g_port': port, 'g_user': b'', 'g_pass': b''}
    return {'Url._parse': url_parse}
