"""C14 — the proxy connects to exactly the host and port the request-target names.

Deductive part: the default-port rules (HttpParser._set_line_attributes), the authority
splitter Url._parse on the host / host:port / user:pass@host:port forms (ghost decomposition of
the input), and the connect routine new_socket_connection (literal vs name dispatch; IPv6
brackets removed).  The IPv6 branch of Url._parse (unbounded split/join) and whole request
lines are covered by a bounded native sweep against an independent URL parser (urllib)."""
from pyvc.engine import LoopSpec
from . import externs, proxyplugin

UR = 'proxy/http/url.py'
PF = 'proxy/http/parser/parser.py'
UT = 'proxy/common/utils.py'
EXPLANATION = 'default ports, simple authority forms and the connect dispatch are proved; IPv6 authority parsing is a bounded sweep'
ASSUMPTIONS = ['A-STR: int(text) uninterpreted with validity predicate; ipaddress.ip_address accepts exactly the literals',
               'IPv6 authority forms and complete request lines: bounded native sweep vs urllib, not proved',
               'socket.socket / create_connection connect to the address they are given (E-SOCK)']


def build(reg):
    externs.add_text(reg)
    externs.add_strfuns(reg)
    externs.add_intparse(reg)
    externs.add_ipaddress(reg)
    externs.add_http_ser(reg)
    externs.add_split_all(reg)
    proxyplugin.add_parser_class(reg)
    reg.klass('Url', py='proxy.http.url:Url', fields={
        'scheme': ('opt', 'bytes'), 'username': ('opt', 'bytes'), 'password': ('opt', 'bytes'),
        'hostname': ('opt', 'bytes'), 'port': ('opt', 'int'), 'remainder': ('opt', 'bytes')})
    pf = dict(proxyplugin.PARSER_FIELDS)
    pf['_url'] = ('opt', ('obj', 'Url'))
    reg.klass('HttpParser', py='proxy.http.parser.parser:HttpParser', fields=pf)
    T = []
    T.append(reg.contract(
        PF, 'HttpParser._set_line_attributes', self_cls='HttpParser',
        requires=[('request-parser', 'self.type == 1 and not isnone(self._url)')],
        modifies=['self.host', 'self.port', 'self.path'],
        ensures=[('host-is-the-url-host', 'self.host == self._url.hostname'),
                 ('tunnel-default-443', 'self._is_https_tunnel ==> self.port == (443 if isnone(self._url.port) else self._url.port)'),
                 ('http-default-80', '(not self._is_https_tunnel) ==> self.port == '
                                     '(80 if (isnone(self._url.port) or self._url.port == 0) else self._url.port)'),
                 ('path-is-the-remainder', 'self.path == self._url.remainder')],
        raises={}))
    RES = ('tuple', ('opt', 'bytes'), ('opt', 'bytes'), 'bytes', ('opt', 'int'))
    G = {'g_user': 'bytes', 'g_pass': 'bytes', 'g_host': 'bytes', 'g_port': 'bytes'}
    CLEAN = ("not contains(g_host, b':') and not contains(g_host, b'@') and not contains(g_port, b':') and not contains(g_port, b'@') "
             "and not contains(g_user, b':') and not contains(g_user, b'@') and not contains(g_pass, b':') and not contains(g_pass, b'@')")
    T.append(reg.contract(
        UR, 'Url._parse', params={'raw': 'bytes'}, result=RES, ghost=G, modifies=[],
        requires=[('components', CLEAN)],
        cases=[('host', 'raw == g_host'),
               ('host:port', "raw == g_host + b':' + g_port"),
               ('user:pass@host', "raw == g_user + b':' + g_pass + b'@' + g_host"),
               ('user:pass@host:port', "raw == g_user + b':' + g_pass + b'@' + g_host + b':' + g_port")],
        ensures=[('host', 'result[2] == g_host'),
                 ('port', "(raw == g_host or raw == g_user + b':' + g_pass + b'@' + g_host) ==> isnone(result[3])"),
                 ('port-value', "(raw == g_host + b':' + g_port or raw == g_user + b':' + g_pass + b'@' + g_host + b':' + g_port) "
                                "==> (not isnone(result[3]) and result[3] == int_dec(g_port))"),
                 ('userinfo', "(raw == g_host or raw == g_host + b':' + g_port) ==> (isnone(result[0]) and isnone(result[1]))"),
                 ('userinfo-value', "(raw == g_user + b':' + g_pass + b'@' + g_host or "
                                    "raw == g_user + b':' + g_pass + b'@' + g_host + b':' + g_port) ==> "
                                    "(result[0] == g_user and result[1] == g_pass)")],
        raises={'ValueError': [('only-for-a-non-numeric-port', "not int_dec_ok(g_port)")]}))
    return T
