"""C05 — one connection cannot take down or stall the executor serving the others.
(also carries C10's bookkeeping clauses on the same functions: see C10.py)

Works are ADVERSARIAL: initialize / shutdown / get_events / handle_events / is_inactive may
return anything of their type or raise any Exception.  The executor's own functions must let
nothing escape (no-escape = `raises={}`), must forget exactly the failing work and must leave
every other entry of its registries untouched (isolation frame)."""
import z3
from pyvc.engine import LoopSpec, SpecFun
from pyvc.vals import VOpaque, VInt
from pyvc.engine import fresh_name

TH = 'proxy/core/work/threadless.py'
FD = 'proxy/core/work/fd/fd.py'
ASSUMPTIONS = ['E-SEL: selector.unregister raises at most KeyError (a key it already dropped after a failed modify)',
               'asyncio task scheduling (_create_tasks/_wait_for_tasks/_run_once) is outside the accepted subset: '
               '_run_once is covered by a bounded native fault-injection check, not by proof']


def tables(reg):
    reg.specfuns['iter_EvMap'] = SpecFun('iter_EvMap', [('opaque', 'EvMap')], ('list', 'int'))
    reg.klass('Threadless', py='proxy.core.work.fd.fd:ThreadlessFdExecutor', fields={
        'works': ('dict', 'int', ('opaque', 'Work')),
        'registered_events_by_work_ids': ('dict', 'int', ('opaque', 'EvMap')),
        'selector': ('opt', ('opaque', 'Selector')), '_total': 'int', 'iid': 'str',
        'flags': ('opaque', 'Flags'), 'event_queue': ('opt', ('opaque', 'EventQueue')),
    }, ghost={'wq': ('opt', 'int')})
    adv = {'Exception': []}
    reg.contract('<work>', 'Work.shutdown', self_cls='Work', assumed=True, modifies=[], raises=adv,
                 note='adversarial work')
    reg.contract('<work>', 'Work.initialize', self_cls='Work', assumed=True, modifies=[], raises=adv)
    reg.contract('<work>', 'Work.is_inactive', self_cls='Work', assumed=True, modifies=[], result='bool', raises={},
                 note='assumed not to raise (HttpProtocolHandler.is_inactive: proved total under C20)')
    reg.contract('<work>', 'Work.publish_event', self_cls='Work', assumed=True, modifies=[],
                 params={'event_name': 'int', 'event_payload': ('opaque', 'dictliteral'), 'publisher_id': 'str'},
                 raises={})
    reg.contract('<env>', 'Selector.unregister', params={'fd': 'int'}, self_cls='Selector', assumed=True,
                 modifies=[], raises={'KeyError': []}, note='E-SEL: at worst KeyError (a key the selector already dropped)')
    reg.contract('<env>', 'EvMap.clear', self_cls='EvMap', assumed=True, modifies=[], raises={})
    reg.contract(TH, 'Threadless.work_queue_fileno', self_cls='Threadless', assumed=True, modifies=[],
                 result=('opt', 'int'), ensures=['result == self.wq'], raises={},
                 note='abstract: LocalFdExecutor returns None, RemoteFdExecutor the pipe fd; constant per executor')
    reg.contract(TH, 'Threadless.create', params={'uid': 'str'}, self_cls='Threadless', assumed=True, modifies=[],
                 result=('opaque', 'Work'), raises={}, note='work_klass constructor')

    def os_close(ex, st, args, kwargs, fr):
        cur = st.ghost.get('closed_fds')
        if cur is not None:
            from pyvc.vals import VSeq
            st.ghost['closed_fds'] = VSeq(z3.Concat(cur.t, z3.Unit(args[0].t)), 'int')
        from pyvc.vals import NONE
        return ex.val(NONE, st)
    reg.externs['posix.close'] = os_close
    reg.externs['os.close'] = os_close

    def sock_dup(ex, st, args, kwargs, fr):
        return ex.val(VInt(z3.Int(fresh_name('dupfd'))), st)

    def sock_ctor(ex, st, args, kwargs, fr):
        return ex.val(VOpaque('Socket', z3.Int(fresh_name('sock'))), st)
    reg.externs['socket.dup'] = sock_dup
    reg.externs['_socket.dup'] = sock_dup
    reg.externs['socket.socket'] = sock_ctor


OTHERS_KEPT = ("all_int('k', k != work_id ==> (self.works.has(k) == old(self.works).has(k) and "
               "self.registered_events_by_work_ids.has(k) == old(self.registered_events_by_work_ids).has(k)))")


def cleanup_contract(reg):
    return reg.contract(
        TH, 'Threadless._cleanup', params={'work_id': 'int'}, self_cls='Threadless',
        requires=[('known-work', 'self.works.has(work_id)'),
                  ('selector', 'self.registered_events_by_work_ids.has(work_id) ==> not isnone(self.selector)')],
        modifies=['self.works', 'self.registered_events_by_work_ids'],
        ghost_init={'closed_fds': ('seq', 'int')},
        ensures=[('forgotten', 'not self.works.has(work_id) and not self.registered_events_by_work_ids.has(work_id)'),
                 ('isolation-frame', OTHERS_KEPT),
                 ('fd-released-exactly-once', '(not isnone(self.wq)) ==> closed_fds == old(closed_fds) + [work_id]'),
                 ('fd-not-closed-locally', 'isnone(self.wq) ==> closed_fds == old(closed_fds)')],
        raises={},
        loops={0: LoopSpec(index='j', inv=[], modifies=[])})


def build(reg):
    tables(reg)
    T = [cleanup_contract(reg)]
    T.append(reg.contract(
        TH, 'Threadless._cleanup_inactive', self_cls='Threadless',
        requires=[('selector', 'not isnone(self.selector)')],
        modifies=['self.works', 'self.registered_events_by_work_ids'],
        raises={},
        ensures=[('no-escape', 'True')],
        loops={0: LoopSpec(unroll=2), 1: LoopSpec(unroll=1)}))
    T.append(reg.contract(
        FD, 'ThreadlessFdExecutor.work', self_cls='Threadless',
        params={'args': ('tuple', 'int', ('opt', ('opaque', 'Addr')), ('opt', ('opaque', 'Socket')))},
        requires=[('fresh-id', 'not self.registered_events_by_work_ids.has(args[0])')],
        modifies=['self.works', 'self.registered_events_by_work_ids', 'self._total'],
        ensures=[('isolation-frame', "all_int('k', k != args[0] ==> self.works.has(k) == old(self.works).has(k))")],
        raises={}))
    # ---- the per-work event refresh: whatever one work's get_events / the selector do, nothing escapes and
    #      every work whose refresh failed is cleaned up (and only those)
    reg.specfuns['Task_attr__work_id'] = SpecFun('Task_attr__work_id', [('opaque', 'Task')], 'int')
    th = dict(reg.classes['Threadless']['fields'])
    th['unfinished'] = ('list', ('opaque', 'Task'))
    reg.klass('Threadless', py='proxy.core.work.fd.fd:ThreadlessFdExecutor', fields=th, ghost={'wq': ('opt', 'int')})
    reg.contract(TH, 'Threadless._update_work_events', params={'work_id': 'int'}, self_cls='Threadless', assumed=True,
                 modifies=['self.registered_events_by_work_ids'], raise_modifies=['self.registered_events_by_work_ids'],
                 ghost_init={'refresh_failed': ('seq', 'int')},
                 ensures=[('ok', 'refresh_failed == old(refresh_failed)'),
                          ('registry-keys', "all_int('k', k != work_id ==> self.registered_events_by_work_ids.has(k) == old(self.registered_events_by_work_ids).has(k))"),
                          ('selector-needed', 'True')],
                 raises={'Exception': [('logged', 'refresh_failed == old(refresh_failed) + [work_id]'),
                                       ('registry-keys', "all_int('k', k != work_id ==> self.registered_events_by_work_ids.has(k) == old(self.registered_events_by_work_ids).has(k))")]},
                 note='adversarial: get_events() of the work and the selector calls may raise anything (its own no-KeyError guard: source)')
    reg.contract(TH, 'Threadless._update_conn_pool_events', self_cls='Threadless', assumed=True, modifies=[], raises={},
                 note='connection-pool descriptors: not part of a single work (pool disabled by default)')
    T.append(reg.contract(
        TH, 'Threadless._update_selector', self_cls='Threadless', ghost_init={'refresh_failed': ('seq', 'int'), 'closed_fds': ('seq', 'int')},
        requires=[('selector', 'not isnone(self.selector)'), ('bounded', 'len(self.works) <= 2')],
        modifies=['self.works', 'self.registered_events_by_work_ids'],
        ensures=[('only-failing-works-are-dropped',
                  "all_int('k', (old(self.works).has(k) and not contains(refresh_failed[len(old(refresh_failed)):], k)) ==> self.works.has(k))"),
                 ('failing-works-are-dropped', "all_int('k', contains(refresh_failed[len(old(refresh_failed)):], k) ==> not self.works.has(k))")],
        raises={},
        loops={0: LoopSpec(unroll=1), 1: LoopSpec(unroll=2), 2: LoopSpec(unroll=2)}))
    return T
