"""Bounded stand-in shared by C03 / C15 / C02: exhaustive cut-set sweep of the real parsers.
Every message of a small generated family is fed whole, in every 2-piece (and 3-piece in the
thorough tier) segmentation and byte by byte; the observable state must not depend on it and a
self-delimiting message must be reported complete exactly at its last byte."""
import itertools


def family():
    from proxy.http.parser import httpParserTypes
    RQ, RS = httpParserTypes.REQUEST_PARSER, httpParserTypes.RESPONSE_PARSER
    bodies = [b'', b'a', b'hello world', b'\r\n\r\n', bytes(range(0, 40))]
    msgs = []
    for b in bodies:
        if b:
            msgs.append((RQ, b'POST http://h.com/p?q=1 HTTP/1.1\r\nHost: h.com\r\nContent-Length: %d\r\n\r\n' % len(b) + b, True))
            msgs.append((RS, b'HTTP/1.1 200 OK\r\ncontent-length:%d\r\nX: y \r\n\r\n' % len(b) + b, True))
        for size in (1, 3, 64):
            enc = b''.join(b'%x\r\n' % len(b[i:i + size]) + b[i:i + size] + b'\r\n' for i in range(0, len(b), size)) + b'0\r\n\r\n'
            msgs.append((RQ, b'PUT /x HTTP/1.1\r\nTransfer-Encoding: chunked\r\n\r\n' + enc, True))
            msgs.append((RS, b'HTTP/1.1 206 Partial\r\nTransfer-Encoding: chunked\r\nA: b\r\n\r\n' + enc, True))
    msgs.append((RS, b'HTTP/1.1 200 OK\r\nTransfer-Encoding: chunked\r\n\r\n3;x=y\r\nabc\r\n0\r\nT: v\r\n\r\n', True))
    # body-less requests and header-less status lines: no trailing bytes (ambiguous otherwise)
    msgs.append((RQ, b'GET http://h.com:8080/ HTTP/1.1\r\nHost: h.com:8080\r\nAccept: */*\r\n\r\n', False))
    msgs.append((RQ, b'CONNECT h.com:443 HTTP/1.1\r\n\r\n', False))
    msgs.append((RS, b'HTTP/1.1 200 Connection established\r\n\r\n', False))
    return msgs


def observe(p):
    return (p.is_complete, p.method, p.path, p.version, p.code, p.reason,
            None if p.headers is None else sorted(p.headers.items()), p.body if p.is_complete else None,
            None if p.buffer is None else bytes(p.buffer), p.host, p.port)


def sweep(tier, seed):
    from proxy.http.parser import HttpParser
    from pyvc.guard import time_limit, NativeTimeout
    bad = []
    n = 0
    TAIL = b'GET /next HTTP/1.1\r\n'
    for ptype, msg, tail_ok in family():
        data = msg + (TAIL if tail_ok else b'')
        ref = HttpParser(ptype)
        try:
            with time_limit(10):
                ref.parse(memoryview(data))
        except NativeTimeout:
            bad.append({'message': msg[:60].decode('latin-1'), 'what': 'parse() of the whole message does not return within 10 s'})
            continue
        except Exception as e:      # noqa
            bad.append({'message': msg[:60].decode('latin-1'), 'what': 'one-piece feed raised %r' % (e,)})
            continue
        want = observe(ref)
        if not want[0]:
            bad.append({'message': msg[:60].decode('latin-1'), 'what': 'one-piece feed does not complete'})
            continue
        ks = (1, 2) if tier != 'quick' and len(data) <= 90 else (1,)
        segs = [tuple(range(1, len(data)))]
        for k in ks:
            segs += list(itertools.combinations(range(1, len(data)), k))
        for c in segs:
            idx = [0] + list(c) + [len(data)]
            p = HttpParser(ptype)
            complete_at = None
            fed = 0
            try:
                with time_limit(10):
                    for a, b in zip(idx, idx[1:]):
                        p.parse(memoryview(data[a:b]))
                        fed = b
                        if p.is_complete and complete_at is None:
                            complete_at = fed
            except NativeTimeout:
                bad.append({'message': msg[:60].decode('latin-1'), 'cuts': list(c)[:6], 'what': 'parse() does not return within 10 s'})
                break
            except Exception as e:      # noqa
                bad.append({'message': msg[:60].decode('latin-1'), 'cuts': list(c)[:6], 'what': 'raised %r' % (e,)})
                continue
            n += 1
            got = observe(p)
            first_after = min([x for x in idx[1:] if x >= len(msg)])
            if got != want:
                bad.append({'message': msg[:60].decode('latin-1'), 'cuts': list(c)[:6], 'what': 'observable state differs',
                            'got': repr(got)[:200], 'want': repr(want)[:200]})
            elif complete_at != first_after:
                bad.append({'message': msg[:60].decode('latin-1'), 'cuts': list(c)[:6],
                            'what': 'reported complete after %s bytes, message ends at %d' % (complete_at, len(msg))})
            if len(bad) > 20:
                break
    return {'name': 'native cut-set sweep of HttpParser (segmentation independence, completion at last byte)',
            'bounded': True, 'bound': 'message family of %d messages x all 2-piece%s segmentations + byte-by-byte' % (
                len(family()), ' and 3-piece' if tier != 'quick' else ''),
            'cases': n, 'violations': bad[:3]}


def hostile_inputs(tier, seed):
    """(parser type, bytes): malformed framing fields (grid) and randomly damaged family messages"""
    import random
    rnd = random.Random(seed * 31 + 7)
    cl = [b'0', b'5', b'-1', b'-5', b'+5', b' 5', b'5 ', b'x', b'', b'5, 6', b'00', b'0x5', b'99999999999999999999', b'5.0', b'1e1']
    sizes = [b'0', b'5', b'-1', b'-5', b'+5', b' 5', b'g', b'', b';', b';x', b'0x5', b'5;ext', b'ffffffffffffffff', b'-0', b'5 5']
    msgs = []
    for a in cl:
        msgs.append((1, b'POST /p HTTP/1.1\r\nHost: h\r\nContent-Length: ' + a + b'\r\n\r\nhello world'))
        for b in (b'0', b'-3', b'7', b'x'):
            msgs.append((1, b'POST /p HTTP/1.1\r\nContent-Length: ' + a + b'\r\nContent-Length: ' + b + b'\r\n\r\nhello world'))
            msgs.append((2, b'HTTP/1.1 200 OK\r\ncontent-length: ' + a + b'\r\nCONTENT-LENGTH: ' + b + b'\r\n\r\nhello world'))
        msgs.append((1, b'POST /p HTTP/1.1\r\nTransfer-Encoding: chunked\r\nContent-Length: ' + a + b'\r\n\r\n5\r\nhello\r\n0\r\n\r\n'))
    for z in sizes:
        for tail in (b'\r\nhello\r\n0\r\n\r\n', b'\r\n', b'\r\nhello world, more than five bytes\r\n'):
            msgs.append((1, b'PUT /x HTTP/1.1\r\nTransfer-Encoding: chunked\r\n\r\n' + z + tail))
            msgs.append((2, b'HTTP/1.1 200 OK\r\ntransfer-encoding: CHUNKED\r\n\r\n3\r\nabc\r\n' + z + tail))
    msgs += [(1, b'GET /caf\xe9 HTTP/1.1\r\nHost: x\r\n\r\n'), (1, b'GET /\xff\xfe?q=1 HTTP/1.1\r\n\r\n'), (1, b'GET /a/../../etc/passwd HTTP/1.1\r\n\r\n'),
             (1, b'GET / HTTP/1.1\r\nHost: \xff\r\n\r\n'), (1, b'POST /x HTTP/1.1\r\nContent-Length: 3\r\n\r\n\xff\xfe\xfd'),
             (1, b'GET http://h.example/\xe9 HTTP/1.1\r\nHost: h.example\r\n\r\n'), (1, b'CONNECT h.example:44\xb3 HTTP/1.1\r\n\r\n')]
    msgs += [(1, b'\r\n\r\n'), (1, b'GET\r\n\r\n'), (2, b'HTTP/1.1\r\n\r\n'), (1, b'GET / HTTP/1.1\r\nNoColon\r\n\r\n'),
             (1, b'GET / HTTP/1.1\r\n: v\r\n\r\n'), (1, b'GET / HTTP/1.1\nHost: h\n\n'), (2, b'HTTP/1.1 200 OK\r\r\n\r\n'),
             (1, b'GET / HTTP/1.1\r\nTransfer-Encoding: chunked\r\nTransfer-Encoding: identity\r\n\r\n0\r\n\r\n')]
    base = [m for _, m, _ in family()]
    types = [t for t, _, _ in family()]
    for _ in range(200 if tier == 'quick' else 3000):
        i = rnd.randrange(len(base))
        m = bytearray(base[i])
        for _k in range(rnd.choice([1, 1, 2, 3])):
            op = rnd.random()
            pos = rnd.randrange(len(m)) if m else 0
            if op < 0.4 and m:
                m[pos] = rnd.choice(b'\r\n:-0 5;x\x00\xff')
            elif op < 0.7 and m:
                del m[pos]
            else:
                m[pos:pos] = rnd.choice([b'\r\n', b'-', b'0', b':', b'Content-Length: 0\r\n', b' '])
        msgs.append((types[i], bytes(m)))
    return msgs


def hostile(tier, seed):
    """Bounded stand-in for `every byte sequence`: malformed framing fields and randomly damaged
    messages, fed whole and byte by byte to the real parser under a watchdog.  The parser may return in
    any state or raise -- it must not spin (the worker calling it serves other connections too)."""
    from proxy.http.parser import HttpParser
    from pyvc.guard import time_limit, NativeTimeout
    msgs = hostile_inputs(tier, seed)
    bad, n = [], 0
    for t, m in msgs:
        for mode in ('whole', 'bytewise'):
            p = HttpParser(t)
            try:
                with time_limit(5):
                    if mode == 'whole':
                        p.parse(memoryview(m))
                    else:
                        for i in range(len(m)):
                            p.parse(memoryview(m[i:i + 1]))
            except NativeTimeout:
                bad.append({'input': m[:120].decode('latin-1'), 'fed': mode, 'parser_type': t,
                            'what': 'parse() does not return within 5 s: one client can hang the worker'})
            except Exception:       # noqa  rejecting malformed input is fine
                pass
            n += 1
        if len(bad) > 5:
            break
    return {'name': 'hostile-input sweep of HttpParser (termination on malformed and damaged messages)', 'bounded': True,
            'bound': '%d inputs (framing-field grid + seeded random damage), whole and byte by byte, 5 s watchdog' % len(msgs),
            'cases': n, 'violations': bad[:3]}
