#!/bin/sh
# run_all.sh [tier] [jobs]: every claimed check against /repo, N at a time; prints the summary lines
T=${1:-quick}; J=${2:-3}
cd /verif
ls contracts | grep -E '^C[0-9]+\.py$' | sed 's/\.py//' | xargs -P $J -I{} sh -c "./check {} --tier $T > /tmp/runall-{}.log 2>&1; echo {} exit=\$?"
grep -hE "^(VIOLATION|UNDECIDED|STRUCTURE|KNOWN-FINDING)" /tmp/runall-C*.log | cut -c1-220
