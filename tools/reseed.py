#!/usr/bin/env python3
"""reseed.py [ids...]: re-run, against every kept seeded change (seeded/<id>/patch.diff applied to a scratch
worktree of /repo HEAD), the checks that are recorded as catching it; prints one line per (seed, check)."""
import json, os, subprocess, sys
ids = sys.argv[1:] or sorted(d for d in os.listdir('/verif/seeded') if os.path.isdir('/verif/seeded/' + d))
bad = 0
for sid in ids:
    meta = json.load(open('/verif/seeded/%s/meta.json' % sid))
    checks = meta.get('detected_by') or [sid]
    wt = '/tmp/reseed-%s' % sid
    subprocess.run(['git', '-C', '/repo', 'worktree', 'remove', '--force', wt], stderr=subprocess.DEVNULL)
    subprocess.run(['/verif/tools/mkscratch.sh', wt], check=True)
    try:
        r = subprocess.run(['git', 'apply', '/verif/seeded/%s/patch.diff' % sid], cwd=wt, capture_output=True, text=True)
        if r.returncode != 0:
            print('%s: patch no longer applies: %s' % (sid, r.stderr.strip()[:200]))
            bad += 1
            continue
        for c in checks:
            p = subprocess.run(['/verif/check', c], cwd='/verif', env=dict(os.environ, PYVC_REPO=wt), capture_output=True, text=True)
            v = [l for l in p.stdout.split('\n') if l.startswith('VIOLATION')]
            print('%s vs %s: exit %d, %d VIOLATION line(s)%s' % (sid, c, p.returncode, len(v), '' if p.returncode == 1 else '   <-- NOT CAUGHT'))
            sys.stdout.flush()
            if p.returncode != 1:
                bad += 1
    finally:
        subprocess.run(['git', '-C', '/repo', 'worktree', 'remove', '--force', wt], stderr=subprocess.DEVNULL)
sys.exit(1 if bad else 0)
