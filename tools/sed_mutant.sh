#!/bin/sh
# sed_mutant.sh <relpath> <sed-expr> <Cxx>...: planted mutant on a scratch worktree
set -e
F="$1"; E="$2"; shift; shift
W=/tmp/wt-sed-$$
/verif/tools/mkscratch.sh $W
sed -i "$E" $W/$F
( cd $W && git diff --stat | tail -1 )
for c in "$@"; do
  ( cd /verif && PYVC_REPO=$W ./check $c 2>&1 | grep -E "VIOLATION|STRUCTURE|UNDECIDED|exit [0-9]" | cut -c1-220 ) || true
done
git -C /repo worktree remove --force $W
