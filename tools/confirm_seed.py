#!/usr/bin/env python3
"""confirm_seed.py <Cxx> [<check ids>...]: confirm a sub-agent's change independently and file it
under /verif/seeded/<Cxx>/.  Steps (all in a scratch worktree outside /repo and /verif):
 1. the patch applies to /repo HEAD;  2. demo exits 0 on the clean tree and 1 with the patch;
 3. the existing suite (minus the always-failing network tests) still passes with the patch;
 4. our checks are run against the patched tree and their verdicts recorded."""
import json, os, shutil, subprocess, sys, time
pid = sys.argv[1]
checks = sys.argv[2:] or [pid]
src = '%s/%s.out' % (os.environ.get('MUT_ROOT', '/tmp/mut'), pid)
dst = '/verif/seeded/%s%s' % (pid, os.environ.get('SEED_SUFFIX', ''))
wt = '/tmp/seedwt-%s' % pid
DESEL = ['--deselect', 'tests/integration', '--deselect', 'tests/http/proxy/test_http2.py', '--deselect', 'tests/http/test_client.py',
         '--deselect', 'tests/test_grout.py', '--deselect', 'tests/test_main.py::TestProxyContextManager']


def sh(cmd, cwd=None, timeout=3000, env=None):
    p = subprocess.run(cmd, cwd=cwd, stdout=subprocess.PIPE, stderr=subprocess.STDOUT, text=True, timeout=timeout, env=env)
    return p.returncode, p.stdout


meta = {'property': pid, 'confirmed_at': time.strftime('%Y-%m-%dT%H:%M:%S'), 'repo_head': sh(['git', '-C', '/repo', 'rev-parse', 'HEAD'])[1].strip()}
subprocess.run(['git', '-C', '/repo', 'worktree', 'remove', '--force', wt], stderr=subprocess.DEVNULL)
shutil.rmtree(wt, ignore_errors=True)
assert sh(['/verif/tools/mkscratch.sh', wt])[0] == 0
try:
    env = dict(os.environ, PYTHONPATH=wt)
    rc0, out0 = sh(['/venv/bin/python', src + '/demo.py'], cwd=wt, env=env, timeout=900)
    meta['demo_on_clean_tree'] = {'exit': rc0, 'tail': out0[-300:]}
    rc, out = sh(['git', 'apply', src + '/patch.diff'], cwd=wt)
    meta['patch_applies'] = rc == 0
    if rc != 0:
        meta['error'] = out[-500:]
    else:
        rc1, out1 = sh(['/venv/bin/python', src + '/demo.py'], cwd=wt, env=env, timeout=900)
        meta['demo_with_change'] = {'exit': rc1, 'tail': out1[-600:]}
        rct, outt = sh(['/venv/bin/python', '-m', 'pytest', '-q', '-p', 'no:cacheprovider', '--timeout=900', '-x'] + DESEL + ['tests'],
                       cwd=wt, timeout=3000)
        meta['existing_tests_with_change'] = {'exit': rct, 'summary': outt.strip().split('\n')[-1]}
        meta['checks'] = {}
        for c in checks:
            rcc, outc = sh(['/verif/check', c], cwd='/verif', env=dict(os.environ, PYVC_REPO=wt), timeout=3000)
            lines = [l[:300] for l in outc.split('\n') if l.startswith(('VIOLATION', 'STRUCTURE', 'UNDECIDED', c + ':'))]
            meta['checks'][c] = {'exit': rcc, 'lines': lines[:8]}
finally:
    subprocess.run(['git', '-C', '/repo', 'worktree', 'remove', '--force', wt], stderr=subprocess.DEVNULL)
    shutil.rmtree(wt, ignore_errors=True)
ok = meta.get('patch_applies') and meta['demo_on_clean_tree']['exit'] == 0 and meta.get('demo_with_change', {}).get('exit') == 1 \
    and meta.get('existing_tests_with_change', {}).get('exit') == 0
meta['confirmed'] = bool(ok)
meta['detected_by'] = [c for c, r in meta.get('checks', {}).items() if r['exit'] == 1]
if ok:
    os.makedirs(dst, exist_ok=True)
    for f in ('patch.diff', 'demo.py', 'notes.md'):
        if os.path.exists(os.path.join(src, f)):
            shutil.copy(os.path.join(src, f), os.path.join(dst, f))
    try:
        meta['needs_to_manifest'] = open(os.path.join(src, 'notes.md')).read()[:1500]
    except OSError:
        pass
    json.dump(meta, open(os.path.join(dst, 'meta.json'), 'w'), indent=1)
print(json.dumps({k: meta[k] for k in ('property', 'confirmed', 'detected_by') if k in meta}))
if not ok:
    print(json.dumps(meta, indent=1)[:2500])
