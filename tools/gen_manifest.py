#!/usr/bin/env python3
"""Regenerate MANIFEST.json from the table below (claimed checks + not_applicable)."""
import json, os
CLAIMED = {
 'C01': ('4.C01', 'buffer/flush stream law and the relay laws (upstream->client, opaque-tunnel client->upstream, plain TCP tunnel handler, reverse-proxy upstream handler) as postconditions of the real functions; client-side teardown clauses shared with C07',
         'E-SEND/E-RECV socket contracts, A-ATOM, A-VIEW, A-PARSE (bookkeeping parser used via contract), plugins return chunks unchanged, connection pool off'),
 'C02': ('4.C02', 'first and later requests: hop-by-hop fields removed, Via added (first request), operator-disabled fields not emitted, chunked bodies re-encoded incl. the empty one — postconditions on on_request_complete / on_client_data / _get_body_or_chunks; equality of whole forwarded requests: exhaustive native end-to-end sweep (bounded)',
         'HttpParser.build (dict comprehension) used through an assumed field-emission contract and covered by the bounded sweep; known finding F18 (no Via on follow-ups) carved out'),
 'C03': ('4.C03', 'framing contracts proved for all inputs: find_http_line, ChunkParser.process / parse (per state, well-formedness, termination), _process_body, _process_headers / _process_line (only whole lines consumed, termination) and the HttpParser.parse driver (the unconsumed tail is exactly what self.buffer keeps); segmentation independence of whole messages: exhaustive native cut-set sweep + CPython cross-check of the contracts on reached parser states (bounded stand-ins)',
         'A-STR (int parsing uninterpreted); the relational statement feed(pieces)==feed(whole) is bounded (message family x all 2-/3-piece cuts + bytewise), not proved'),
 'C04': ('4.C04', 'reduced claim: follow-up branch of HttpProxyPlugin.on_client_data — an incomplete follow-up request is kept across segments, a complete one is forwarded exactly once, scrubbed, and the parser reset; an unparsable / unknown-protocol follow-up gets exactly the canned 400 and only listed exception classes leave; web server follow-ups (HttpWebServerPlugin.on_client_data): handed to the route exactly once before any teardown',
         'right-origin / right-route selection for follow-ups is NOT claimed (open known findings F11, F12); adversarial follow-up parser state'),
 'C05': ('4.C05', 'no-escape and isolation-frame contracts on Threadless._cleanup / _cleanup_inactive / _update_selector (per-work event refresh) and ThreadlessFdExecutor.work against adversarial works and a raising selector',
         'E-SEL (selector.unregister raises at most KeyError), asyncio task plumbing (_run_once) not covered, loops of _cleanup_inactive / _update_selector unrolled (bounded: <=2 works)'),
 'C06': ('4.C06', 'build_http_pkt == RFC 7230 serialisation spec function (loop invariant), exact bytes and Content-Length framing rule of build_http_request / build_http_response (one length field whatever its spelling, none for chunked), _parse_first_request: parse failure => exactly the canned 400 + exception, rejection => 400 + teardown; every self-made response parsed by http.client in a native closed-term / grid check (bounded)',
         'A-STR (lower/join uninterpreted), adversarial parser and plugin contracts; okResponse / canned packets are covered by the bounded native check only'),
 'C07': ('4.C07', 'teardown only when the client buffer is empty or the client is dead (T1), write interest while output is pending (T2), promptness (T3), deferred teardown flag (T4) on the real handlers',
         'peer keeps reading; handle_data used via adversarial contract; known finding F20 (threaded final flush + SSLWant*) carved out under C10'),
 'C08': ('4.C08', 'auth predicate == credential spec (accept iff header present, two tokens, basic, exact code) as normal/exceptional postconditions; rejection reaches nothing (ghost connect counter); Proxy-Authorization never in the forwarded request',
         'A-STR (lower / whitespace split uninterpreted), adversarial plugin hooks, HttpParser.build used through its field-emission contract (instances for the hop-by-hop names), connect_upstream via contract'),
 'C09': ('4.C09', 'hook chains of on_request_complete: before_upstream_connection / handle_client_request run in configured (dict) order, each plugin at most once, None ends the chain and suppresses connect / forwarding, a rejection ends it before any handle_client_request, every hook receives the request object the previous one returned (ghost cur_req; first request and follow-ups) — ghost call logs with loop invariants; lifecycle: close hook exactly once on all exits of shutdown()',
         'plugin load order (Plugins.load / FlagParser) not under contract; on_access_log chain not covered'),
 'C10': ('4.C10', 'C05 bookkeeping + shutdown(): client socket closed exactly once and plugin close hook exactly once on all exits; received descriptor closed exactly once; upstream socket closed exactly once by the proxy plugin\'s and the reverse proxy\'s close hooks',
         'socket.close releases the descriptor (kernel tables not modelled); TLS unwrap branch not modelled; _flush termination not proved; user close hooks assumed not to raise (F16); F20 carved out'),
 'C11': ('4.C11', 'reduced claim: the verification parameters handed to ssl for the upstream handshake (verify_mode, check_hostname, cafile and no further trust anchors, server_hostname) and the SAN kind handed to openssl, as postconditions with a ghost handshake record',
         'E-SSL: wrap_socket/openssl enforce what they are given; handshake, chain building, expiry, issued leaf content and the certificate cache are not covered'),
 'C12': ('4.C12', 'ReverseProxy.handle_request: connect only for a route chosen in this call, target host/port (default by scheme), TLS iff https, path replacement, Host rewrite iff option — postconditions over ghost connect/handshake/rebuild records with loop invariants',
         'regex matching uninterpreted; dynamic routes modelled as returning a Url; Url.from_bytes / HttpParser.build / connect via contracts; one request per connection (F11 open)'),
 'C13': ('4.C13', 'confinement postcondition on the path handed to serve_static_file (ghost log of opened paths) against an independently written inside() predicate; serve_static_file opens exactly the path it was given; native sweep on a real directory tree (bounded)',
         'E-PATH (normpath resolves dot segments, no symlinks), E-FS (open opens the named file)'),
 'C14': ('4.C14', 'default ports (80 / 443 for CONNECT), host / host:port authority splitting, connect dispatch (literal vs name, IPv6 brackets removed) as postconditions; full request-target grammar incl. userinfo and IPv6 forms: native sweep vs urllib.parse (bounded)',
         'A-STR; IPv6 / userinfo branches of Url._parse are bounded (sweep), known finding F17 (damaged authorities accepted) carved out'),
 'C15': ('4.C15', 'parser framing contracts and builder specs shared with C03/C06 (re-proved), empty chunked body re-encoding; CPython cross-check of those contracts; whole-message round trips parse(build), build(parse), decode(encode) for all chunk sizes vs a reference decoder, update_body: native sweep (bounded)',
         'whole-message round trips are bounded, not proved; ChunkParser.to_chunks itself only through the sweep'),
 'C16': ('4.C16', 'build() == RFC 6455 spec function for every field combination and every payload length (unbounded ints); parse() inverts it incl. trailing bytes; apply_mask loop invariant',
         'E-CODEC (struct.pack/unpack big-endian; 8-byte form axiomatised by pack/unpack inverse), two xormask lemmas assumed with bounded check, bytes are code points 0..255'),
 'C18': ('4.C18', 'per-event contract of EventDispatcher.handle_event/_send/_close_and_delete over a ghost delivery log (channel, message): ack-or-drop on subscribe, at most one ack and removal on unsubscribe, fan-out of exactly this event; _broadcast unrolled for <= 3 subscribers (the property\'s own bound) plus an exhaustive native script sweep',
         'E-CHAN (send delivers once or raises BrokenPipeError), E-QUEUE FIFO; broadcast bounded to 3 subscribers — that part is bounded, not proved'),
 'C19': ('4.C19', 'reduced claim: port write-back slice of Proxy.setup (flags.port is the primary listener\'s port; flags.ports are exactly the other bound ports) for <= 3 additional ports; Proxy.shutdown: every started component shut down exactly once in order, pid / port files removed; plus an exhaustive native option-grid sweep of the real ListenerPool.setup + slice + port file',
         'single listening address; ListenerPool.setup creation order assumed in the proof part (exercised for real in the sweep); accepting endpoints, child processes and execution modes are out of reach'),
 'C20': ('4.C20', 'is_inactive == (no pending output and idle > timeout) as iff-postcondition; last_activity stamped exactly on acted-upon client readiness',
         'E-TIME (monotone mathematical clock); delay bound in loop iterations not seconds; reaper loop covered under C05 (bounded)'),
}
NA = {
 'C17': 'differential equivalence of three concurrency drivers (threads / processes / fd passing); no single-call or single-structure contract states it (DESIGN.md section 6)',
}
TODO_REASON = 'contracts not written yet in this session (no check is registered, so nothing is claimed)'
props = [json.loads(l) for l in open('/verif/properties.jsonl')]
checks = []
na = []
for p in props:
    pid = p['id']
    if pid in CLAIMED and os.path.exists('/verif/contracts/%s.py' % pid):
        ref, text, note = CLAIMED[pid]
        checks.append({
            'property_id': pid,
            'quick_cmd': './check %s --tier quick' % pid,
            'thorough_cmd': './check %s --tier thorough' % pid,
            'evidence_file': 'evidence/%s.json' % pid,
            'replay_cmd_template': './check %s --replay {path}' % pid,
            'engine': 'pyvc',
            'level_claimed': {'category': 'proof', 'text': text + ' — discharged for all inputs by z3/cvc5 from VCs generated out of the real source on every run', 'design_ref': 'DESIGN.md ' + ref},
            'level_note': note,
            'technique': 'contract-based deductive verification: sidecar pre/postconditions, loop invariants and ghost state on the real functions; VCs from the Python AST; z3 + cvc5'
                         + ('; plus bounded native sweeps / CPython cross-check of the contracts as counterexample finders (labelled bounded, never counted as proved)'
                            if any(w in open('/verif/contracts/%s.py' % pid).read() for w in ('def bounded_checks', 'CROSSCHECK = ')) else ''),
        })
    else:
        na.append({'property_id': pid, 'reason': NA.get(pid, TODO_REASON)})
m = {
 'version': 1,
 'setup_cmd': 'python3-vt -c "import z3, sys; sys.path.insert(0, \'/verif\'); import pyvc.run" && z3-new --version && cvc5 --version | head -1',
 'hooks': {'guard': 'PROXY_PY_VERIF', 'enable': 'no hooks: contracts are sidecar files under /verif/contracts; /repo is read (ast + import), never instrumented',
           'baseline_off_cmd': 'cd /repo && /venv/bin/python -m pytest -ra -q -p no:cacheprovider --timeout=900 --continue-on-collection-errors',
           'source_commits': [], 'add_only': True},
 'engines': [{'name': 'pyvc', 'path': 'pyvc/', 'serves_properties': sorted(c['property_id'] for c in checks),
              'kind_free_text': 'own VC generator: symbolic execution of the real Python AST against sidecar contracts; obligations to z3 5.1 and cvc5 1.0.3 as subprocesses; native replay of counter-models'}],
 'checks': checks,
 'not_applicable': na,
 'notes': 'exit codes: 0 held, 1 VIOLATION, 2 undecided (solver budget), 3 STRUCTURE (function missing / outside subset). fix: commits in /repo are listed in known_findings.json / DESIGN.md section 5.',
}
json.dump(m, open('/verif/MANIFEST.json', 'w'), indent=1)
print(len(checks), 'checks', len(na), 'not applicable')
