#!/usr/bin/env python3
"""Print the sub-agent brief for one property (nothing from /verif except the property text)."""
import json, sys
pid = sys.argv[1]
for l in open('/verif/properties.jsonl'):
    p = json.loads(l)
    if p['id'] == pid:
        break
import os
root = os.environ.get('MUT_ROOT', '/tmp/mut')
wt = '%s/%s' % (root, pid)
out = '%s/%s.out' % (root, pid)
print(f"""You are helping test a verification effort by playing the role of a careless-but-plausible developer.

The project is abhinavsingh/proxy.py (pure-Python HTTP/HTTPS forward & reverse proxy and web server). You have your
own scratch git worktree of it at {wt} (work ONLY there; never touch /repo or /verif; do not read /verif).
Run Python as /venv/bin/python with the worktree as current directory (check once that `import proxy; proxy.__file__`
resolves inside {wt}).

Here is a semantic property that proxy.py is supposed to satisfy:

  id: {p['id']}
  title: {p['title']}
  statement: {p['statement']}
  quantifier: {p['quantifier']['text']}
  code anchors: {json.dumps(p['anchors'].get('mechanism'))}

YOUR TASK: produce ONE small, realistic source change to proxy.py (the code under {wt}/proxy, not the tests) that
BREAKS this property while still importing/compiling fine and passing the existing test suite. It should look like
a plausible refactoring slip, optimisation or "simplification" a maintainer might merge - not sabotage, no dead code,
no special-casing of magic values. Prefer a change that needs something specific to manifest - a particular
interleaving or split of input, a fault at a particular point, a multi-step sequence of operations, an unusual but
valid input, a boundary size, or two cooperating sites that each look fine alone - rather than one that ordinary
use would expose at once. Keep it to a few lines in one or two places.

Then write a demonstration: a small standalone Python program {out}/demo.py (run as
`cd <tree> && /venv/bin/python {out}/demo.py`) that drives the REAL code (unit level with mocks/fake sockets is
fine, or a live proxy on 127.0.0.1 - loopback works, there is no external network) and exits 0 when the property
holds (unchanged tree) and exits 1 printing what went wrong when your change is applied. Verify both: run it in
your modified worktree (must exit 1) and with the change reverted (save `git diff > {out}/patch.diff`, then
`git apply -R {out}/patch.diff`; must exit 0; then `git apply {out}/patch.diff` again). Do NOT use `git stash`: the stash is
shared between worktrees of other people working in parallel.

Confirm the existing tests still pass with your change: run at least the relevant test files/directories, e.g.
`cd {wt} && /venv/bin/python -m pytest -q -p no:cacheprovider --timeout=900 -x tests/<dir>` and, if time permits,
the whole suite: `/venv/bin/python -m pytest -q -p no:cacheprovider --timeout=900 --deselect tests/integration
--deselect tests/http/proxy/test_http2.py --deselect tests/http/test_client.py --deselect tests/test_grout.py
tests` (tests/test_main.py::TestProxyContextManager is known to fail offline; ignore it). If a test fails because of
your change, pick a different change.

Deliver, in {out}/ (create it):
  patch.diff  - `git -C {wt} diff` of your change (source files only)
  demo.py     - the demonstration
  notes.md    - 5-10 lines: what the change is, why it breaks the property, exactly what is needed for it to
                manifest, which tests you ran and their result
Leave the worktree with your change applied. Finish with a short summary of the above as your final message.""")
