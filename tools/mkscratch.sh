#!/bin/sh
# mkscratch.sh <dir>: scratch git worktree of /repo HEAD (outside /repo and /verif), with the
# generated, git-ignored version file copied so that `import proxy` works there.
set -e
git -C /repo worktree add -q --detach "$1" HEAD
cp /repo/proxy/common/_scm_version.py "$1/proxy/common/_scm_version.py"
