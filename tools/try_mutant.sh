#!/bin/sh
# try_mutant.sh <patch.diff> <Cxx> [<Cyy> ...]: apply a patch to a scratch worktree and run the checks against it
set -e
P="$1"; shift
W=/tmp/wt-try-$$
/verif/tools/mkscratch.sh $W
( cd $W && git apply "$P" )
for c in "$@"; do
  ( cd /verif && PYVC_REPO=$W ./check $c 2>&1 | grep -E "VIOLATION|STRUCTURE|UNDECIDED|exit [0-9]" | cut -c1-260 ) || true
done
git -C /repo worktree remove --force $W
