"""Python reference implementations of the spec functions (used by native replay)."""


def flat(xs):
    return b''.join(bytes(x) for x in xs)


SPECFUNS = {'flat': flat, 'len': len}


def xormask(d, m):
    return bytes(b ^ m[i % 4] for i, b in enumerate(d))


def chr8(n):
    return bytes([n])


def be16(n):
    return n.to_bytes(2, 'big')


def be64(n):
    return n.to_bytes(8, 'big')


def is_bytes(s):
    return isinstance(s, (bytes, bytearray))


def wsframe(fin, r1, r2, r3, op, masked, key, payload):
    """RFC 6455 section 5.2, written independently of proxy.py"""
    n = len(payload)
    b0 = 128 * bool(fin) + 64 * bool(r1) + 32 * bool(r2) + 16 * bool(r3) + op
    if n < 126:
        L, ext = n, b''
    elif n < 65536:
        L, ext = 126, be16(n)
    else:
        L, ext = 127, be64(n)
    body = (key + xormask(payload, key)) if masked else payload
    return bytes([b0, 128 * bool(masked) + L]) + ext + body


SPECFUNS.update(xormask=xormask, chr8=chr8, be16=be16, be64=be64, is_bytes=is_bytes, wsframe=wsframe)
