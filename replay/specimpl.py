"""Python reference implementations of the spec functions (used by native replay)."""


def flat(xs):
    return b''.join(bytes(x) for x in xs)


SPECFUNS = {'flat': flat, 'len': len}
