"""Contract clause text -> CPython code object (old(), ==>, isnone, unchanged, forall/exists, mv)."""
import ast
import sys


class Rewriter(ast.NodeTransformer):
    def __init__(self):
        self.olds = []

    def visit_Call(self, n):
        if isinstance(n.func, ast.Name):
            f = n.func.id
            if f == 'old':
                k = len(self.olds)
                self.olds.append(n.args[0])
                return ast.Subscript(value=ast.Name(id='__old', ctx=ast.Load()), slice=ast.Constant(k), ctx=ast.Load())
            if f == 'implies':
                a, b = self.visit(n.args[0]), self.visit(n.args[1])
                return ast.BoolOp(op=ast.Or(), values=[ast.UnaryOp(op=ast.Not(), operand=a), b])
            if f == 'isnone':
                return ast.Compare(left=self.visit(n.args[0]), ops=[ast.Is()], comparators=[ast.Constant(None)])
            if f == 'unchanged':
                conj = []
                for a in n.args:
                    k = len(self.olds)
                    self.olds.append(a)
                    conj.append(ast.Compare(left=self.visit(a), ops=[ast.Eq()], comparators=[
                        ast.Subscript(value=ast.Name(id='__old', ctx=ast.Load()), slice=ast.Constant(k), ctx=ast.Load())]))
                return ast.BoolOp(op=ast.And(), values=conj) if len(conj) > 1 else conj[0]
            if f in ('forall', 'exists'):
                var = n.args[0].value
                body = self.visit(n.args[3])
                gen = ast.GeneratorExp(elt=body, generators=[ast.comprehension(
                    target=ast.Name(id=var, ctx=ast.Store()),
                    iter=ast.Call(func=ast.Name(id='range', ctx=ast.Load()), args=[self.visit(n.args[1]), self.visit(n.args[2])], keywords=[]),
                    ifs=[], is_async=0)])
                return ast.Call(func=ast.Name(id='all' if f == 'forall' else 'any', ctx=ast.Load()), args=[gen], keywords=[])
            if f in ('all_bytes', 'all_str', 'all_int') and len(n.args) == 2 and isinstance(n.args[0], ast.Constant):
                # universal over a whole type: natively over a finite universe supplied by the harness
                var = n.args[0].value
                body = self.visit(n.args[1])
                gen = ast.GeneratorExp(elt=body, generators=[ast.comprehension(
                    target=ast.Name(id=var, ctx=ast.Store()), iter=ast.Name(id='__universe_' + f[4:], ctx=ast.Load()),
                    ifs=[], is_async=0)])
                return ast.Call(func=ast.Name(id='all', ctx=ast.Load()), args=[gen], keywords=[])
            if f in ('mv', 'memoryview'):
                return self.visit(n.args[0])
        return self.generic_visit(n)


def compile_clause(text):
    sys.path.insert(0, '/verif')
    from pyvc.spectext import rewrite_implies
    tree = ast.parse(rewrite_implies(text.strip()), mode='eval')
    rw = Rewriter()
    body = rw.visit(tree.body)
    ex = ast.Expression(body=body)
    ast.fix_missing_locations(ex)
    olds = []
    for o in rw.olds:
        e = ast.Expression(body=o)
        ast.fix_missing_locations(e)
        olds.append(compile(e, '<old>', 'eval'))
    return compile(ex, '<clause>', 'eval'), olds
