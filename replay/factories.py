"""Factories: concretised counter-model -> real objects with a scripted environment."""
import importlib
import socket
import ssl

from replay.native import View


def exc_class(name):
    import builtins
    if hasattr(builtins, name):
        return getattr(builtins, name)
    mod, _, cl = name.rpartition('.')
    return getattr(importlib.import_module(mod), cl)


class Env(object):
    """The scripted outcomes of environment calls, consumed in order."""
    def __init__(self, script):
        self.script = list(script)
        self.pos = 0
        self.log = []
        self.ok = True

    def next(self, call):
        if self.pos >= len(self.script) or self.script[self.pos]['call'] != call:
            self.ok = False
            self.log.append('unscripted call %s at %d' % (call, self.pos))
            return None
        e = self.script[self.pos]
        self.pos += 1
        return e

    def consumed_as_scripted(self):
        return self.ok and self.pos == len(self.script)


class FakeSock(object):
    def __init__(self, env, owner):
        self.env, self.owner = env, owner
        self.closed = False

    def send(self, data):
        e = self.env.next('TcpConnection.send')
        data = bytes(data)
        if e is None:
            n = len(data)
        elif 'raise' in e:
            raise exc_class(e['raise'])()
        else:
            from replay.native import dec
            n = dec(e['ret'][0])
            if not isinstance(n, int):
                n = len(data)
        self.owner.wire = self.owner.wire + data[:n]
        return n

    def fileno(self):
        return 7

    def close(self):
        self.closed = True

    def setblocking(self, f):
        pass


def _conn_obj(model, prefix, env, cls=None):
    from proxy.core.connection import TcpClientConnection
    cls = cls or TcpClientConnection
    o = cls.__new__(cls)
    o.buffer = [memoryview(bytes(x)) for x in model.get(prefix + '.buffer', [])]
    o._num_buffer = model.get(prefix + '._num_buffer', 0)
    o.closed = bool(model.get(prefix + '.closed', False))
    o._reusable = bool(model.get(prefix + '._reusable', False))
    o.tag = 'client'
    o.addr = ('127.0.0.1', 1234)
    o.wire = bytes(model.get(prefix + '.wire', b''))
    o.Q = bytes(model.get(prefix + '.Q', b''))
    o._conn = FakeSock(env, o)
    return o


def tcpconn(case, model):
    env = Env(case['env'])
    o = _conn_obj(model, 'self', env)
    meth = case['qualname'].split('.')[1]
    args = {}
    if meth == 'queue':
        args['mv'] = memoryview(bytes(model.get('mv', b'')))
    if meth == 'flush':
        args['max_send_size'] = None if model.get('max_send_size?none', True) else model.get('max_send_size', 0)
    ns = {'self': View(o)}
    ns.update({k: (v.tobytes() if isinstance(v, memoryview) else v) for k, v in args.items()})
    return {'call': lambda: getattr(o, meth)(**args), 'ns': ns, 'env': env}


def wsframe(case, model):
    """WebsocketFrame.build / parse / apply_mask"""
    from proxy.http.websocket.frame import WebsocketFrame
    meth = case['qualname'].split('.')[1]
    env = Env(case['env'])

    def opt(name, conv=lambda x: x):
        return None if model.get(name + '?none', False) else conv(model.get(name))
    if meth == 'apply_mask':
        data, mask = bytes(model.get('data', b'')), bytes(model.get('mask', b'\0\0\0\0'))
        return {'call': lambda: WebsocketFrame.apply_mask(data, mask), 'ns': {'data': data, 'mask': mask}, 'env': None}
    f = WebsocketFrame()
    for fld in ('fin', 'rsv1', 'rsv2', 'rsv3', 'masked'):
        setattr(f, fld, bool(model.get('self.' + fld, False)))
    f.opcode = model.get('self.opcode', 0)
    f.payload_length = opt('self.payload_length')
    f.mask = opt('self.mask', bytes)
    f.data = opt('self.data', bytes)
    ns = {'self': View(f)}
    if meth == 'build':
        return {'call': f.build, 'ns': ns, 'env': None}
    if meth == 'parse':
        g = {k: model.get(k) for k in ('g_fin', 'g_r1', 'g_r2', 'g_r3', 'g_op', 'g_masked', 'g_key', 'g_payload', 'g_tail')}
        for k in ('g_key', 'g_payload', 'g_tail'):
            g[k] = bytes(g[k] or b'')
        for k in ('g_fin', 'g_r1', 'g_r2', 'g_r3', 'g_masked'):
            g[k] = bool(g[k])
        g['g_op'] = g['g_op'] or 0
        raw = bytes(model.get('raw', b''))
        ns.update(g)
        ns['raw'] = raw
        return {'call': lambda: f.parse(raw), 'ns': ns, 'env': None}
    raise KeyError(meth)
