"""Native side of replay: build real objects from a concretised counter-model,
script the environment, call the REAL function, evaluate the contract clause
text in CPython.  Prints one JSON line: {"reproduced": bool, ...}."""
import ast
import copy
import importlib
import json
import sys

sys.path.insert(0, '/verif')
from replay import factories  # noqa: E402
from replay.specimpl import SPECFUNS  # noqa: E402


def dec(v):
    if isinstance(v, dict) and 'b' in v:
        return bytes(v['b'])
    if isinstance(v, list):
        return [dec(x) for x in v]
    return v


def norm(v):
    if isinstance(v, memoryview):
        return v.tobytes()
    if isinstance(v, (list, tuple)):
        return type(v)(norm(x) for x in v)
    if isinstance(v, dict):
        return {norm(k): norm(x) for k, x in v.items()}
    return v


class View(object):
    """attribute reads normalise memoryviews to bytes; works on live objects and snapshots"""
    def __init__(self, o):
        object.__setattr__(self, '_o', o)

    def __getattr__(self, a):
        v = getattr(object.__getattribute__(self, '_o'), a)
        if isinstance(v, (int, bool, bytes, str, type(None), float)):
            return v
        if isinstance(v, (memoryview, list, tuple, dict)):
            return norm(v)
        return View(v)


class Rewriter(ast.NodeTransformer):
    def __init__(self):
        self.olds = []

    def visit_Call(self, n):
        if isinstance(n.func, ast.Name):
            f = n.func.id
            if f == 'old':
                k = len(self.olds)
                self.olds.append(n.args[0])
                return ast.Subscript(value=ast.Name(id='__old', ctx=ast.Load()), slice=ast.Constant(k), ctx=ast.Load())
            if f == 'implies':
                a, b = self.visit(n.args[0]), self.visit(n.args[1])
                return ast.BoolOp(op=ast.Or(), values=[ast.UnaryOp(op=ast.Not(), operand=a), b])
            if f == 'isnone':
                return ast.Compare(left=self.visit(n.args[0]), ops=[ast.Is()], comparators=[ast.Constant(None)])
            if f == 'unchanged':
                conj = []
                for a in n.args:
                    k = len(self.olds)
                    self.olds.append(a)
                    conj.append(ast.Compare(left=self.visit(a), ops=[ast.Eq()], comparators=[
                        ast.Subscript(value=ast.Name(id='__old', ctx=ast.Load()), slice=ast.Constant(k), ctx=ast.Load())]))
                return ast.BoolOp(op=ast.And(), values=conj) if len(conj) > 1 else conj[0]
            if f in ('forall', 'exists'):
                var = n.args[0].value
                body = self.visit(n.args[3])
                gen = ast.GeneratorExp(elt=body, generators=[ast.comprehension(
                    target=ast.Name(id=var, ctx=ast.Store()),
                    iter=ast.Call(func=ast.Name(id='range', ctx=ast.Load()), args=[self.visit(n.args[1]), self.visit(n.args[2])], keywords=[]),
                    ifs=[], is_async=0)])
                return ast.Call(func=ast.Name(id='all' if f == 'forall' else 'any', ctx=ast.Load()), args=[gen], keywords=[])
            if f in ('mv', 'memoryview'):
                return self.visit(n.args[0])
        return self.generic_visit(n)


def compile_clause(text):
    sys.path.insert(0, '/verif')
    from pyvc.spectext import rewrite_implies
    tree = ast.parse(rewrite_implies(text.strip()), mode='eval')
    rw = Rewriter()
    body = rw.visit(tree.body)
    ex = ast.Expression(body=body)
    ast.fix_missing_locations(ex)
    olds = []
    for o in rw.olds:
        e = ast.Expression(body=o)
        ast.fix_missing_locations(e)
        olds.append(compile(e, '<old>', 'eval'))
    return compile(ex, '<clause>', 'eval'), olds


def main():
    case = json.load(open(sys.argv[1]))
    model = {k: dec(v) for k, v in case['model'].items()}
    fac = getattr(factories, case['factory'])
    built = fac(case, model)          # -> dict(call=callable, ns=namespace dict for specs, env=Env)
    ns = dict(SPECFUNS)
    ns.update(built['ns'])
    # precondition must hold natively, otherwise the model is outside the contract
    pre_ok = True
    for t in case.get('requires', []):
        code, _ = compile_clause(t)
        try:
            if not eval(code, dict(ns)):
                pre_ok = False
        except Exception as e:
            pre_ok = False
    compiled = [(nm, compile_clause(t)) for nm, t in case['clauses']]
    olds = {}
    for nm, (code, oc) in compiled:
        olds[nm] = [copy.deepcopy(norm(eval(c, dict(ns)))) for c in oc]
    exc = None
    result = None
    try:
        result = built['call']()
    except BaseException as e:   # noqa
        exc = e
    ns['result'] = norm(result)
    out = {'reproduced': False, 'pre_ok': pre_ok, 'exception': type(exc).__name__ if exc else None,
           'result': repr(result)[:200], 'clauses': {}}
    if built.get('env') is not None and not built['env'].consumed_as_scripted():
        out['env_mismatch'] = built['env'].log[-5:]
    bad = False
    if case['kind'] == 'noraise':
        bad = exc is not None and type(exc).__name__ == case.get('meta_exception')
        out['clauses']['no-escape'] = not bad
    else:
        expected_exc = case.get('meta_exception')
        if (exc is None) != (expected_exc is None):
            out['exit_mismatch'] = True
        else:
            for nm, (code, oc) in compiled:
                n2 = dict(ns)
                n2['__old'] = olds[nm]
                try:
                    ok = bool(eval(code, n2))
                except Exception as e:
                    ok = False
                    out.setdefault('eval_errors', {})[nm] = repr(e)
                out['clauses'][nm] = ok
                if not ok:
                    bad = True
    out['reproduced'] = bool(bad and pre_ok and not out.get('exit_mismatch'))
    print(json.dumps(out, default=repr))


if __name__ == '__main__':
    main()
