"""Native side of replay: build real objects from a concretised counter-model,
script the environment, call the REAL function, evaluate the contract clause
text in CPython.  Prints one JSON line: {"reproduced": bool, ...}."""
import ast
import copy
import importlib
import json
import sys

sys.path.insert(0, '/verif')
from replay import factories  # noqa: E402
from replay.specimpl import SPECFUNS  # noqa: E402


def dec(v):
    if isinstance(v, dict) and 'b' in v:
        return bytes(v['b'])
    if isinstance(v, list):
        return [dec(x) for x in v]
    return v


def norm(v):
    if isinstance(v, memoryview):
        return v.tobytes()
    if isinstance(v, (list, tuple)):
        return type(v)(norm(x) for x in v)
    if isinstance(v, dict):
        return {norm(k): norm(x) for k, x in v.items()}
    return v


class View(object):
    """attribute reads normalise memoryviews to bytes; works on live objects and snapshots"""
    def __init__(self, o):
        object.__setattr__(self, '_o', o)

    def __getattr__(self, a):
        v = getattr(object.__getattribute__(self, '_o'), a)
        if isinstance(v, (int, bool, bytes, str, type(None), float)):
            return v
        if isinstance(v, (memoryview, list, tuple, dict)):
            return norm(v)
        return View(v)


from replay.clause import Rewriter, compile_clause  # noqa: E402,F401


def main():
    case = json.load(open(sys.argv[1]))
    model = {k: dec(v) for k, v in case['model'].items()}
    fac = getattr(factories, case['factory'])
    built = fac(case, model)          # -> dict(call=callable, ns=namespace dict for specs, env=Env)
    ns = dict(SPECFUNS)
    ns.update(built['ns'])
    # precondition must hold natively, otherwise the model is outside the contract
    pre_ok = True
    for t in case.get('requires', []):
        code, _ = compile_clause(t)
        try:
            if not eval(code, dict(ns)):
                pre_ok = False
        except Exception as e:
            pre_ok = False
    compiled = [(nm, compile_clause(t)) for nm, t in case['clauses']]
    olds = {}
    for nm, (code, oc) in compiled:
        olds[nm] = [copy.deepcopy(norm(eval(c, dict(ns)))) for c in oc]
    exc = None
    result = None
    try:
        result = built['call']()
    except BaseException as e:   # noqa
        exc = e
    ns['result'] = norm(result)
    out = {'reproduced': False, 'pre_ok': pre_ok, 'exception': type(exc).__name__ if exc else None,
           'result': repr(result)[:200], 'clauses': {}}
    if built.get('env') is not None and not built['env'].consumed_as_scripted():
        out['env_mismatch'] = built['env'].log[-5:]
    bad = False
    if case['kind'] == 'noraise':
        bad = exc is not None and type(exc).__name__ == case.get('meta_exception')
        out['clauses']['no-escape'] = not bad
    else:
        expected_exc = case.get('meta_exception')
        if (exc is None) != (expected_exc is None):
            out['exit_mismatch'] = True
        else:
            for nm, (code, oc) in compiled:
                n2 = dict(ns)
                n2['__old'] = olds[nm]
                try:
                    ok = bool(eval(code, n2))
                except Exception as e:
                    ok = False
                    out.setdefault('eval_errors', {})[nm] = repr(e)
                out['clauses'][nm] = ok
                if not ok:
                    bad = True
    out['reproduced'] = bool(bad and pre_ok and not out.get('exit_mismatch'))
    print(json.dumps(out, default=repr))


if __name__ == '__main__':
    main()
