"""F15 (C11): the generated leaf for an IP-literal CONNECT host must carry an
IP: subjectAltName (a DNS: entry never matches an address).  exit 1 = defect."""
import sys
from proxy.common.pki import get_ext_config
bad = []
for host, want in (('example.org', b'DNS:example.org'), ('127.0.0.1', b'IP:127.0.0.1'),
                   ('::1', b'IP:::1'), ('[::1]', b'IP:::1')):
    cfg = get_ext_config([host])
    if cfg != b'\nsubjectAltName=' + want:
        bad.append('%s -> %r' % (host, cfg))
for b in bad: print('DEFECT F15:', b)
sys.exit(1 if bad else 0)
