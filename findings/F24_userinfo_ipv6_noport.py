"""F24 (C14): userinfo + bracketed IPv6 literal WITHOUT a port ('http://user:pass@[::1]/'): the
derived host keeps the userinfo ('user:pass@[::1]' or worse), so the connect target is wrong.
exit 1 = defect."""
import sys
from proxy.http.parser import HttpParser
bad = []
for target, host in (('http://user:pass@[::1]/', b'[::1]'), ('http://user:pass@[2001:db8::1]/x', b'[2001:db8::1]')):
    try:
        p = HttpParser.request(('GET %s HTTP/1.1\r\n\r\n' % target).encode())
        if p.host != host or p.port != 80:
            bad.append('%s -> host=%r port=%r' % (target, p.host, p.port))
    except Exception as e:
        bad.append('%s rejected: %r' % (target, e))
for b in bad: print('DEFECT F24:', b)
sys.exit(1 if bad else 0)
