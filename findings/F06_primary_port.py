"""F6 (C19): with --port 0 --ports 0 the embedding API's flags.port must be the
port of the listener created for --port, and the port file must list every
bound TCP port, primary first.  exit 1 = defect present."""
import sys, os, tempfile
from proxy import Proxy
pf = os.path.join(tempfile.mkdtemp(), 'ports')
with Proxy(['--port', '0', '--ports', '0', '--hostname', '127.0.0.1', '--num-workers', '1',
            '--num-acceptors', '1', '--port-file', pf, '--log-level', 'e']) as p:
    bound = [l._port for l in p.listeners.pool]
    primary = bound[-1]           # ListenerPool.setup creates --ports first, --port last
    lines = [int(x) for x in open(pf).read().split()]
    print('bound', bound, 'flags.port', p.flags.port, 'flags.ports', p.flags.ports, 'file', lines)
    ok = p.flags.port == primary and set(lines) == set(bound) and lines[0] == primary \
        and set([p.flags.port] + list(p.flags.ports)) == set(bound)
if not ok:
    print('DEFECT F6: primary port misreported / bound port missing from port file')
    sys.exit(1)
