"""F32 (C06): forward proxy, a request whose target host holds a non-UTF-8 byte ('CONNECT h.\\xffom:443',
'GET http://h.\\xffom/'): connect_upstream decodes the host inside its try block AND again inside the
`except Exception` handler, so UnicodeDecodeError escapes handle_data and the connection is dropped without
a response.  exit 1 = defect."""
import logging
import sys
from unittest import mock
logging.disable(logging.CRITICAL)
from proxy.common.flag import FlagParser
from proxy.http.handler import HttpProtocolHandler
from proxy.http.connection import HttpClientConnection
flags = FlagParser.initialize(threaded=False)
bad = []
for req in (b'CONNECT h.\xffom:443 HTTP/1.1\r\n\r\n', b'GET http://h.\xffom/p HTTP/1.1\r\nHost: h.com\r\n\r\n', b'GET http://\xe9.example:8080/ HTTP/1.1\r\n\r\n'):
    sock = mock.MagicMock()
    sock.fileno.return_value = 11
    h = HttpProtocolHandler(HttpClientConnection(sock, ('127.0.0.1', 9)), flags=flags)
    try:
        r = h.handle_data(memoryview(req))
        outcome = 'returned %r' % (r,)
    except Exception as e:      # noqa
        r, outcome = True, 'raised %r' % (e,)
    out = b''.join(bytes(x) for x in h.work.buffer)
    print('%-34r -> %s, sent: %r' % (req[:32], outcome[:70], out[:24]))
    if outcome.startswith('raised') or (r and not out.startswith(b'HTTP/1.1 4') and not out.startswith(b'HTTP/1.1 5')):
        bad.append(req)
if bad:
    print('DEFECT F32: %d requests with a non-UTF-8 target host are dropped without a response' % len(bad))
    sys.exit(1)
