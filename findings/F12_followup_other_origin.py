"""F12 (C04): a follow-up request on a keep-alive proxy connection that names ANOTHER origin is
forwarded to the upstream of the first request (the proxy never re-connects).  exit 1 = defect."""
import sys
from unittest import mock
from proxy.http.proxy.server import HttpProxyPlugin
from proxy.http.parser import HttpParser
self = mock.MagicMock()
self.plugins = {}
self.upstream.closed = False
self.upstream.addr = ('first.example', 80)
self.request = HttpParser.request(b'GET http://first.example/ HTTP/1.1\r\nHost: first.example\r\n\r\n')
self.pipeline_request = None
self.flags.disable_headers = []
self._tls_intercept_enabled = False
HttpProxyPlugin.on_client_data(self, memoryview(b'GET http://second.example/x HTTP/1.1\r\nHost: second.example\r\n\r\n'))
if self.upstream.queue.called:
    sent = bytes(self.upstream.queue.call_args[0][0])
    print('queued to upstream %r: %r' % (self.upstream.addr, sent[:60]))
    if b'second.example' in sent:
        print('DEFECT F12: request for second.example forwarded to the connection opened for first.example')
        sys.exit(1)
