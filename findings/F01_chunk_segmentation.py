"""F1 / F4 (C03, C15, C01): the chunked decoder must not depend on segmentation, must report
completion exactly at the last byte (the CRLF after the last-chunk line), must accept chunk
extensions and skip trailer fields.  All 1-, 2- and 3-piece segmentations of a few messages,
ChunkParser on its own and inside HttpParser.  exit 1 = defect."""
import sys, itertools
from proxy.http.parser import ChunkParser, chunkParserStates, HttpParser, httpParserTypes
MSGS = [(b'4\r\nWiki\r\n5\r\npedia\r\n0\r\n\r\n', b'Wikipedia'),
        (b'3;ext=1\r\nabc\r\n0\r\n\r\n', b'abc'),
        (b'2\r\n\r\n\r\n0\r\nX-Trailer: v\r\n\r\n', b'\r\n'),
        (b'0\r\n\r\n', b'')]
TAIL = b'NEXT'
bad = []
def feed_chunk(pieces):
    p = ChunkParser(); rest = b''; done_at = None; fed = 0
    for piece in pieces:
        out = p.parse(memoryview(piece)); fed += len(piece)
        if p.state == chunkParserStates.COMPLETE and done_at is None:
            done_at = fed - len(bytes(out))
            rest = bytes(out)
        elif done_at is not None:
            rest += piece
    return p.state == chunkParserStates.COMPLETE, p.body, rest, done_at
def cuts(n, k):
    return itertools.combinations(range(1, n), k)
for raw, body in MSGS:
    data = raw + TAIL
    for k in (0, 1, 2):
        for c in cuts(len(data), k):
            idx = [0] + list(c) + [len(data)]
            pieces = [data[a:b] for a, b in zip(idx, idx[1:])]
            try:
                done, got, rest, at = feed_chunk(pieces)
            except Exception as e:
                bad.append('ChunkParser %r cuts %r raised %r' % (raw, c, e)); continue
            if not done or got != body or rest != TAIL or at != len(raw):
                bad.append('ChunkParser %r cuts %r: complete=%s body=%r rest=%r complete_at=%r (want %d)' % (raw, c, done, got, rest, at, len(raw)))
    head = b'HTTP/1.1 200 OK\r\nTransfer-Encoding: chunked\r\n\r\n'
    data = head + raw
    for k in (0, 1, 2):
        for c in cuts(len(data), k):
            idx = [0] + list(c) + [len(data)]
            p = HttpParser(httpParserTypes.RESPONSE_PARSER)
            early = False
            try:
                for a, b in zip(idx, idx[1:]):
                    if p.is_complete:
                        early = True
                    p.parse(memoryview(data[a:b]))
            except Exception as e:
                bad.append('HttpParser %r cuts %r raised %r' % (raw, c, e)); continue
            if not p.is_complete or p.body != body or p.buffer is not None or early:
                bad.append('HttpParser %r cuts %r: complete=%s early=%s body=%r buffer=%r' % (
                    raw, c, p.is_complete, early, p.body, None if p.buffer is None else bytes(p.buffer)))
for b in bad[:8]: print('DEFECT F1:', b)
print('%d failing segmentations' % len(bad))
sys.exit(1 if bad else 0)
