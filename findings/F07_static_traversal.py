"""F7 (C13): GET /../secret.txt must not serve a file outside the static root.
Drives the real HttpWebServerPlugin._try_static_or_404.  exit 1 = defect."""
import sys, os, tempfile
from unittest import mock
from proxy.http.server.web import HttpWebServerPlugin
from proxy.http.responses import NOT_FOUND_RESPONSE_PKT
top = tempfile.mkdtemp()
root = os.path.join(top, 'public'); os.mkdir(root)
open(os.path.join(top, 'secret.txt'), 'wb').write(b'TOP-SECRET')
open(os.path.join(root, 'index.html'), 'wb').write(b'<html>hello</html>')
bad = []
for path, inside in ((b'/index.html', True), (b'/../secret.txt', False), (b'/a/../../secret.txt', False),
                     (b'/./index.html', True), (b'//../secret.txt', False), (b'/index.html?x=/../secret.txt', True),
                     (b'/..', False), (b'/../public/index.html', True)):
    self = mock.MagicMock()
    self.flags.static_server_dir = root
    self.flags.min_compression_length = 10 ** 6
    HttpWebServerPlugin._try_static_or_404(self, path)
    pkt = bytes(self.client.queue.call_args[0][0])
    served = pkt.startswith(b'HTTP/1.1 200')
    if served and not inside:
        bad.append('%r served from outside the root: %r' % (path, pkt[-12:]))
    if inside and not served:
        bad.append('%r inside the root not served' % path)
for b in bad: print('DEFECT F7:', b)
sys.exit(1 if bad else 0)
