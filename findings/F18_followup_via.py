"""F18 (C02): a later request on a keep-alive proxy connection must reach
the origin with a Via field naming the proxy (as the first request does).
Not repaired: tests/plugin/test_http_proxy_plugins_with_tls_interception.py::test_man_in_the_middle_plugin
pins the forwarded follow-up request byte for byte without Via.
Drives the real HttpProxyPlugin.on_client_data.  exit 1 = defect."""
import sys
from unittest import mock
from proxy.http.proxy.server import HttpProxyPlugin
from proxy.http.parser import HttpParser, httpParserTypes
self = mock.MagicMock()
self.plugins = {}
self.upstream.closed = False
self.request = HttpParser.request(b'GET http://h.com/ HTTP/1.1\r\nHost: h.com\r\n\r\n')
self.pipeline_request = None
self.flags.disable_headers = [b'x-drop']
self._tls_intercept_enabled = False
HttpProxyPlugin.on_client_data(self, memoryview(
    b'GET http://h.com/2 HTTP/1.1\r\nHost: h.com\r\nProxy-Authorization: Basic dTpw\r\n'
    b'Proxy-Connection: keep-alive\r\nX-Drop: 1\r\nX-Keep: 2\r\n\r\n'))
sent = bytes(self.upstream.queue.call_args[0][0])
print(sent)
low = sent.lower()
bad = []
if b'\r\nvia: ' not in low: bad.append(b'<no via>')
if bad:
    print('DEFECT F18: follow-up request forwarded with', bad)
    sys.exit(1)
