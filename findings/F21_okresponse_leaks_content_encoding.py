"""F21 (C06): okResponse() mutates the caller's headers dict: after one compressed reply the dict
carries Content-Encoding: gzip, and the next (uncompressed) reply built from the same dict
advertises gzip for a plain body.  exit 1 = defect."""
import sys, gzip
from proxy.http.responses import okResponse
common = {b'X-App': b'1'}
first = bytes(okResponse(content=b'z' * 500, headers=common, min_compression_length=20))
second = bytes(okResponse(content=b'hi', headers=common, min_compression_length=20))
head, _, body = second.partition(b'\r\n\r\n')
print(head.decode('latin-1').replace('\r\n', ' | '), '||', body)
if b'content-encoding: gzip' in head.lower():
    try:
        ok = gzip.decompress(body) == b'hi'
    except Exception:
        ok = False
    if not ok:
        print('DEFECT F21: second reply advertises Content-Encoding: gzip for an uncompressed body')
        sys.exit(1)
