"""F11 (C04, C05, C10): a second request on a keep-alive reverse-proxy connection replaces the
live upstream connection object without closing it (descriptor leak; the worker's selector still
holds the old descriptor).  exit 1 = defect."""
import sys
from unittest import mock
import proxy.http.server.reverse as rv
import proxy.core.base.tcp_upstream as tu
from proxy.http.parser import HttpParser
made = []
class FakeUp(object):
    def __init__(self, host, port):
        self.addr, self.closed, self.was_closed = (host, port), True, False
        made.append(self)
    def connect(self): self.closed = False
    def wrap(self, *a, **k): pass
    def queue(self, mv): pass
    def close(self): self.was_closed = True; self.closed = True
class Plugin(object):
    def before_routing(self, r): return r
    def routes(self): return [(r'/api/(.*)$', [b'http://up.example/base'])]
rp = rv.ReverseProxy.__new__(rv.ReverseProxy)
rp.flags = mock.MagicMock(); rp.flags.rewrite_host_header = False
rp.client = mock.MagicMock(); rp.plugins = [Plugin()]; rp.upstream = None; rp.choice = None; rp._upstream_proxy_pass = None
with mock.patch.object(tu, 'TcpServerConnection', FakeUp):
    for _ in range(2):
        rp.handle_request(HttpParser.request(b'GET /api/x HTTP/1.1\r\nHost: f\r\n\r\n'))
print('upstream objects created:', len(made), 'first one closed:', made[0].was_closed)
if len(made) == 2 and not made[0].was_closed:
    print('DEFECT F11: the first upstream connection was replaced while still open')
    sys.exit(1)
