"""F13 (C07): when the protocol plugin asks for teardown from write_to_descriptors (e.g. the
upstream flush hit BrokenPipeError) while output for the client is still queued, handle_events
must not report teardown before that output is flushed (threadless shutdown does not flush).
exit 1 = defect."""
import sys, asyncio
from unittest import mock
from proxy.http.handler import HttpProtocolHandler
from proxy.http.connection import HttpClientConnection
from proxy.common.flag import FlagParser
flags = FlagParser.initialize(threaded=False)
sock = mock.MagicMock(); sock.fileno.return_value = 9; sock.send.side_effect = lambda d: len(d)
h = HttpProtocolHandler(HttpClientConnection(sock, ('127.0.0.1', 1)), flags=flags)
h.plugin = mock.MagicMock()
async def true(*a): return True
async def false(*a): return False
h.plugin.write_to_descriptors = true
h.plugin.read_from_descriptors = false
h.plugin.on_response_chunk = lambda c: c
h.work.queue(memoryview(b'response-bytes-owed-to-the-client'))
r = asyncio.new_event_loop().run_until_complete(h.handle_events([], []))   # client not writable yet
print('teardown', r, 'pending', h.work.has_buffer())
if r and h.work.has_buffer():
    print('DEFECT F13: teardown reported with %d queued piece(s) undelivered' % len(h.work.buffer)); sys.exit(1)
r = asyncio.new_event_loop().run_until_complete(h.handle_events([], [9]))  # now writable: flush, then teardown
if not r or h.work.has_buffer():
    print('DEFECT F13: after the flush teardown=%s pending=%s' % (r, h.work.has_buffer())); sys.exit(1)
