"""F19 (C09, C10): threaded mode — when the final flush in shutdown() hits an OSError other than
BrokenPipeError (e.g. ConnectionResetError from the client), the protocol plugin's
on_client_connection_close (access log, on_upstream_connection_close, upstream close) must
still run exactly once.  exit 1 = defect."""
import sys
from unittest import mock
from proxy.http.handler import HttpProtocolHandler
from proxy.http.connection import HttpClientConnection
from proxy.common.flag import FlagParser
flags = FlagParser.initialize(threaded=True)
sock = mock.MagicMock(); sock.fileno.return_value = 9; sock.send.side_effect = ConnectionResetError()
with mock.patch('selectors.DefaultSelector') as sel:
    sel.return_value.select.return_value = [(mock.MagicMock(), 2)]
    h = HttpProtocolHandler(HttpClientConnection(sock, ('127.0.0.1', 1)), flags=flags)
    h.plugin = mock.MagicMock()
    h.work.queue(memoryview(b'tail of the response'))
    h.shutdown()
n = h.plugin.on_client_connection_close.call_count
print('close hook calls:', n, 'socket closed:', sock.close.called)
if n != 1 or not sock.close.called:
    print('DEFECT F19: plugin.on_client_connection_close ran %d time(s) after a failing final flush' % n)
    sys.exit(1)
