"""F33 (C06): static file server, a request target with an embedded NUL byte ('GET /\\x00'): open() raises
ValueError('embedded null byte'), serve_static_file only turns OSError into 404, the exception escapes
handle_data and the connection is dropped without a response.  exit 1 = defect."""
import logging
import sys
from unittest import mock
logging.disable(logging.CRITICAL)
from proxy.common.flag import FlagParser
from proxy.http.handler import HttpProtocolHandler
from proxy.http.connection import HttpClientConnection
flags = FlagParser.initialize(threaded=False, enable_web_server=True, enable_static_server=True, static_server_dir='/tmp')
bad = []
for target in (b'/\x00', b'/a\x00b.txt', b'/ok/\x00/../x'):
    sock = mock.MagicMock()
    sock.fileno.return_value = 11
    h = HttpProtocolHandler(HttpClientConnection(sock, ('127.0.0.1', 9)), flags=flags)
    try:
        r = h.handle_data(memoryview(b'GET ' + target + b' HTTP/1.1\r\nHost: x\r\n\r\n'))
        outcome = 'returned %r' % (r,)
    except Exception as e:      # noqa
        r, outcome = True, 'raised %r' % (e,)
    out = b''.join(bytes(x) for x in h.work.buffer)
    print('%r -> %s, sent: %r' % (target, outcome[:60], out[:24]))
    if outcome.startswith('raised') or (r and not out.startswith(b'HTTP/1.1 4')):
        bad.append(target)
if bad:
    print('DEFECT F33: %d requests with a NUL byte in the target are dropped without a response' % len(bad))
    sys.exit(1)
