"""F20 (C07): threaded mode — ssl.SSLWantWriteError from the client socket during the final
blocking flush of shutdown() means "retry"; _flush gives up instead and the queued output is
dropped.  exit 1 = defect."""
import sys, ssl
from unittest import mock
from proxy.http.handler import HttpProtocolHandler
from proxy.http.connection import HttpClientConnection
from proxy.common.flag import FlagParser
flags = FlagParser.initialize(threaded=True)
sent = []
calls = {'n': 0}
def send(d):
    calls['n'] += 1
    if calls['n'] == 1:
        raise ssl.SSLWantWriteError()
    sent.append(bytes(d)); return len(d)
sock = mock.MagicMock(); sock.fileno.return_value = 9; sock.send.side_effect = send
with mock.patch('selectors.DefaultSelector') as sel:
    sel.return_value.select.return_value = [(mock.MagicMock(), 2)]
    h = HttpProtocolHandler(HttpClientConnection(sock, ('127.0.0.1', 1)), flags=flags)
    h.work.queue(memoryview(b'tail of the response'))
    h.shutdown()
print('delivered:', b''.join(sent))
if b''.join(sent) != b'tail of the response':
    print('DEFECT F20: final threaded flush abandoned on SSLWantWriteError; output dropped')
    sys.exit(1)
