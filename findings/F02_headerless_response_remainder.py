"""F2 (C03): a header-less status line 'HTTP/1.1 200 ...CRLF CRLF' fed in one piece must leave the
parser in the same state as when fed in two (complete, no unconsumed remainder).  exit 1 = defect."""
import sys
from proxy.http.parser import HttpParser, httpParserTypes
raw = b'HTTP/1.1 200 Connection established\r\n\r\n'
bad = []
ref = None
for cut in range(0, len(raw)):
    p = HttpParser(httpParserTypes.RESPONSE_PARSER)
    if cut:
        p.parse(memoryview(raw[:cut]))
    p.parse(memoryview(raw[cut:]))
    obs = (p.is_complete, p.code, p.reason, None if p.buffer is None else bytes(p.buffer))
    if ref is None:
        ref = obs
    if obs != (True, b'200', b'Connection established', None):
        bad.append('cut %d: %r' % (cut, obs))
for b in bad[:5]: print('DEFECT F2:', b)
sys.exit(1 if bad else 0)
