"""F10 (C14): a bracketed IPv6 literal must reach the socket layer without its
brackets (literal branch of new_socket_connection).  exit 1 = defect."""
import sys, socket
from unittest import mock
from proxy.common.utils import new_socket_connection
with mock.patch('socket.socket') as s, mock.patch('socket.create_connection') as cc:
    new_socket_connection(('[::1]', 8080))
    if cc.called:
        print('DEFECT F10: resolver called with', cc.call_args[0][0])
        sys.exit(1)
    s.assert_called_with(socket.AF_INET6, socket.SOCK_STREAM, 0)
    got = s.return_value.connect.call_args[0][0]
    print('connect', got)
    if got[0] != '::1' or got[1] != 8080:
        print('DEFECT F10: connect target', got); sys.exit(1)
