"""F8 (C08, C02): a later request on a keep-alive proxy connection must reach
the origin without Proxy-Authorization / Proxy-Connection / operator-disabled headers.
Drives the real HttpProxyPlugin.on_client_data.  exit 1 = defect."""
import sys
from unittest import mock
from proxy.http.proxy.server import HttpProxyPlugin
from proxy.http.parser import HttpParser, httpParserTypes
self = mock.MagicMock()
self.plugins = {}
self.upstream.closed = False
self.request = HttpParser.request(b'GET http://h.com/ HTTP/1.1\r\nHost: h.com\r\n\r\n')
self.pipeline_request = None
self.flags.disable_headers = [b'x-drop']
self._tls_intercept_enabled = False
HttpProxyPlugin.on_client_data(self, memoryview(
    b'GET http://h.com/2 HTTP/1.1\r\nHost: h.com\r\nProxy-Authorization: Basic dTpw\r\n'
    b'Proxy-Connection: keep-alive\r\nX-Drop: 1\r\nX-Keep: 2\r\n\r\n'))
sent = bytes(self.upstream.queue.call_args[0][0])
print(sent)
low = sent.lower()
bad = [h for h in (b'proxy-authorization', b'proxy-connection', b'x-drop') if h in low]
if b'x-keep: 2' not in low: bad.append(b'<x-keep lost>')
if bad:
    print('DEFECT F8: follow-up request forwarded with', bad)
    sys.exit(1)
