"""F22 (C15, C02): HttpParser.update_body() on a chunked message stores the body already
chunk-encoded, and build()/build_response() chunk-encode it again: the peer receives a chunked
stream whose content is another chunked stream.  exit 1 = defect."""
import sys
from proxy.http.parser import HttpParser, ChunkParser
wire = b'POST /u HTTP/1.1\r\nHost: h\r\nTransfer-Encoding: chunked\r\n\r\n' + ChunkParser.to_chunks(b'old body')
p = HttpParser.request(wire)
p.update_body(b'NEW BODY', b'text/plain')
out = p.build()
again = HttpParser.request(out)
print('rebuilt body on the wire decodes to:', again.body)
if again.body != b'NEW BODY':
    print('DEFECT F22: update_body + build double-encodes a chunked body')
    sys.exit(1)
