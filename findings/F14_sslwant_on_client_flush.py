"""F14 (C01, C07): ssl.SSLWantWriteError / SSLWantReadError from the client socket during a flush
mean "retry later"; the handler must keep the connection and its queued output.  exit 1 = defect."""
import sys, ssl, asyncio
from unittest import mock
from proxy.http.handler import HttpProtocolHandler
from proxy.http.connection import HttpClientConnection
from proxy.common.flag import FlagParser
flags = FlagParser.initialize(threaded=False)
bad = []
for exc in (ssl.SSLWantWriteError, ssl.SSLWantReadError):
    sock = mock.MagicMock(); sock.fileno.return_value = 9; sock.send.side_effect = exc()
    h = HttpProtocolHandler(HttpClientConnection(sock, ('127.0.0.1', 1)), flags=flags)
    h.work.queue(memoryview(b'payload'))
    r = asyncio.new_event_loop().run_until_complete(h.handle_events([], [9]))
    if r:
        bad.append('%s on client send -> teardown with %d piece(s) still queued' % (exc.__name__, len(h.work.buffer)))
for b in bad: print('DEFECT F14:', b)
sys.exit(1 if bad else 0)
