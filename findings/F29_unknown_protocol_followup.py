"""F29 (C06): a complete follow-up request whose request line is damaged (' PUT /x HTTP/1.1': empty
method, version '/x HTTP/1.1') is not checked like the first request (unknown protocol -> 400):
HttpParser.build() then fails its assertion, AssertionError escapes handle_data and the connection is
dropped without a response.  exit 1 = defect."""
import logging
import sys
from unittest import mock
logging.disable(logging.CRITICAL)
from proxy.common.flag import FlagParser
from proxy.http.handler import HttpProtocolHandler
from proxy.http.connection import HttpClientConnection
import proxy.http.proxy.server as srv
flags = FlagParser.initialize(threaded=False)


class FakeUp(object):
    def __init__(self, host, port):
        self.addr, self.closed, self.buffer = (host, port), True, []

    def connect(self, addr=None, source_address=None):
        self.closed = False
        self.connection = mock.MagicMock()

    def queue(self, mv):
        pass

    def has_buffer(self):
        return False

    def close(self):
        self.closed = True


bad = []
for follow in (b' PUT /x HTTP/1.1\r\nTransfer-Encoding: chunked\r\n\r\n0\r\n\r\n', b' GET http://h.example/ HTTP/1.1\r\n\r\n', b'GET http://h.example/ HTTP/9.9\r\n\r\n'):
    sock = mock.MagicMock()
    sock.fileno.return_value = 11
    h = HttpProtocolHandler(HttpClientConnection(sock, ('127.0.0.1', 9)), flags=flags)
    with mock.patch.object(srv, 'TcpServerConnection', FakeUp):
        assert h.handle_data(memoryview(b'GET http://h.example/ HTTP/1.1\r\nHost: h.example\r\n\r\n')) is False
        try:
            r = h.handle_data(memoryview(follow))
            outcome = 'returned %r' % (r,)
        except Exception as e:      # noqa
            r, outcome = True, 'raised %r' % (e,)
    out = b''.join(bytes(x) for x in h.work.buffer)
    print('%-40r -> %s, sent to client: %r' % (follow[:38], outcome, out[:40]))
    if outcome.startswith('raised') or (r and not out.startswith(b'HTTP/1.1 400')):
        bad.append(follow)
if bad:
    print('DEFECT F29: %d damaged follow-up requests end in an escaping exception / silent close' % len(bad))
    sys.exit(1)
