"""F30 (C06): the built-in web server decodes the request target as UTF-8 without guarding: a target
with a non-UTF-8 byte ('GET /caf\\xe9') raises UnicodeDecodeError out of handle_data, nothing is sent and
the connection is dropped without a response (routes, static server and event emission all decode).
exit 1 = defect."""
import logging
import sys
from unittest import mock
logging.disable(logging.CRITICAL)
from proxy.common.flag import FlagParser
from proxy.http.handler import HttpProtocolHandler
from proxy.http.connection import HttpClientConnection
bad = []
for opts in (dict(enable_web_server=True), dict(enable_web_server=True, enable_static_server=True, static_server_dir='/tmp')):
    flags = FlagParser.initialize(threaded=False, **opts)
    for target in (b'/caf\xe9', b'/\xff\xfe?x=1', b'/ok/\x80'):
        sock = mock.MagicMock()
        sock.fileno.return_value = 11
        h = HttpProtocolHandler(HttpClientConnection(sock, ('127.0.0.1', 9)), flags=flags)
        try:
            r = h.handle_data(memoryview(b'GET ' + target + b' HTTP/1.1\r\nHost: x\r\n\r\n'))
            outcome = 'returned %r' % (r,)
        except Exception as e:      # noqa
            r, outcome = True, 'raised %r' % (e,)
        out = b''.join(bytes(x) for x in h.work.buffer)
        print('%s %r -> %s, sent: %r' % (sorted(opts), target, outcome[:60], out[:24]))
        if outcome.startswith('raised') or (r and not out.startswith(b'HTTP/1.1 4')):
            bad.append(target)
if bad:
    print('DEFECT F30: %d requests with a non-UTF-8 target are dropped without a response' % len(bad))
    sys.exit(1)
