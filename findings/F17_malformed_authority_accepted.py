"""F17 (C14): syntactically damaged authorities are accepted instead of being rejected as
protocol errors: several colons in a reg-name ('h.example:80:90' -> host '[h.example:80:]'),
signed / padded / out-of-range ports ('-1', '+80', ' 80', '99999').  exit 1 = defect."""
import sys
from proxy.http.parser import HttpParser
bad = []
for target in ('http://h.example:80:90/', 'http://h.example:-1/', 'http://h.example:+80/', 'http://h.example: 80/',
               'http://h.example:99999/'):
    try:
        p = HttpParser.request(('GET %s HTTP/1.1\r\n\r\n' % target).encode())
        bad.append('%s accepted as host=%r port=%r' % (target, p.host, p.port))
    except Exception:
        pass
for b in bad: print('DEFECT F17:', b)
sys.exit(1 if bad else 0)
