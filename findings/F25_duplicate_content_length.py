"""F25 witness: a message whose Content-Length field name is not in canonical case is re-serialised
with TWO Content-Length fields (HttpParser.build() on the forwarded request, build_response()).
Exit 1 = the defect is present."""
import sys
from proxy.http.parser import HttpParser, httpParserTypes
from proxy.common.utils import build_http_request, build_http_response
bad = []
p = HttpParser(httpParserTypes.REQUEST_PARSER)
p.parse(memoryview(b'POST http://h/x HTTP/1.1\r\nhost: h\r\ncontent-length: 5\r\n\r\nhello'))
out = p.build()
if out.lower().count(b'content-length:') != 1:
    bad.append(('HttpParser.build', out))
r = HttpParser(httpParserTypes.RESPONSE_PARSER)
r.parse(memoryview(b'HTTP/1.1 200 OK\r\nCONTENT-LENGTH: 5\r\n\r\nhello'))
out = r.build_response()
if out.lower().count(b'content-length:') != 1:
    bad.append(('HttpParser.build_response', out))
for spell in (b'content-length', b'Content-length', b'CONTENT-LENGTH'):
    for out in (build_http_request(b'POST', b'/', headers={spell: b'3'}, body=b'abc', no_ua=True),
                build_http_response(200, reason=b'OK', headers={spell: b'3'}, body=b'abc')):
        if out.lower().count(b'content-length:') != 1:
            bad.append((spell, out))
if bad:
    print('%d re-serialised message(s) carry a second Content-Length field' % len(bad))
    for b in bad[:4]:
        print('  %r' % (b,))
    sys.exit(1)
print('Content-Length is emitted once whatever the spelling')
