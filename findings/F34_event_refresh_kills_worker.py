"""F34 (C05): the worker refreshes the events of every work in Threadless._update_selector without any
guard: an exception raised while ONE work's descriptors are collected or (re)registered -- get_events()
of a work in a bad state, selector.modify() on a descriptor the kernel already dropped (reverse-proxy
follow-up request, F11) -- propagates out of _run_once and ends the worker with all its connections.
exit 1 = defect."""
import asyncio
import os
import selectors
import socket
import sys
from unittest import mock
from proxy.core.work.threadless import Threadless


class Worker(Threadless):
    def work_queue_fileno(self):
        return None

    def work(self, *a, **k):
        pass

    def receive_from_work_queue(self):
        return False

    def close_work_queue(self):
        pass

    @property
    def loop(self):
        return None


class Work(object):
    def __init__(self, sock, bad):
        self.sock, self.bad, self.down = sock, bad, False

    async def get_events(self):
        if self.bad == 'get_events':
            raise OSError('work in a bad state')
        return {self.sock.fileno(): selectors.EVENT_READ}

    def shutdown(self):
        self.down = True
        self.sock.close()

    def is_inactive(self):
        return False


bad = []
for kind in ('get_events', 'stale-modify'):
    w = Worker.__new__(Worker)
    w.selector = selectors.DefaultSelector()
    w.works, w.unfinished, w.registered_events_by_work_ids = {}, set(), {}
    w._upstream_conn_pool, w._upstream_conn_filenos = None, set()
    a1, b1 = socket.socketpair()
    a2, b2 = socket.socketpair()
    good, evil = Work(a1, None), Work(a2, kind)
    w.works = {a2.fileno(): evil, a1.fileno(): good}
    if kind == 'stale-modify':
        # the descriptor was registered, then closed and re-opened behind the selector's back with another mask
        w.selector.register(a2.fileno(), selectors.EVENT_WRITE, data=a2.fileno())
        w.registered_events_by_work_ids[a2.fileno()] = {a2.fileno(): selectors.EVENT_WRITE}
        fd = a2.fileno()
        a2.close()                      # epoll forgets the descriptor ...
        n1, n2 = socket.socketpair()
        if n1.fileno() != fd:           # ... and a new socket takes its number (as after a reconnect)
            os.dup2(n1.fileno(), fd)
        evil.sock = socket.socket(fileno=fd)
        w.works = {fd: evil, a1.fileno(): good}
    try:
        asyncio.new_event_loop().run_until_complete(w._update_selector())
        ok_good = a1.fileno() in w.registered_events_by_work_ids
        print('%s: worker survived; good work registered: %s; failing work removed: %s' % (kind, ok_good, evil not in w.works.values()))
        if not ok_good:
            bad.append(kind)
    except Exception as e:      # noqa
        print('%s: %r escaped the event refresh -> the worker loop ends' % (kind, e))
        bad.append(kind)
if bad:
    print('DEFECT F34: an error in one work during the event refresh takes the worker down (%s)' % ', '.join(bad))
    sys.exit(1)
