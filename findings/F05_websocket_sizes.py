"""F5 (C16): WebsocketFrame.build/parse for payload length 0 and >= 65536,
and a masked frame with empty payload (mask key must still be on the wire).
exit 1 = defect present."""
import sys, struct
from proxy.http.websocket import WebsocketFrame
bad = []
def rt(n, masked, trail=b'TRAIL'):
    f = WebsocketFrame(); f.fin = True; f.opcode = 2; f.masked = masked
    f.mask = b'\x01\x02\x03\x04' if masked else None
    f.data = bytes(i % 251 for i in range(n))
    try:
        raw = f.build()
    except Exception as e:
        bad.append('build n=%d masked=%s raised %r' % (n, masked, e)); return
    # independent RFC 6455 encoder
    b1 = 0x80 if masked else 0
    if n < 126: hdr = bytes([0x82, b1 | n])
    elif n < 65536: hdr = bytes([0x82, b1 | 126]) + struct.pack('!H', n)
    else: hdr = bytes([0x82, b1 | 127]) + struct.pack('!Q', n)
    pay = f.data
    if masked:
        hdr += f.mask
        pay = bytes(b ^ f.mask[i % 4] for i, b in enumerate(pay))
    if raw != hdr + pay:
        bad.append('build n=%d masked=%s differs from RFC 6455 encoding' % (n, masked)); return
    g = WebsocketFrame()
    try:
        rest = g.parse(raw + trail)
    except Exception as e:
        bad.append('parse n=%d masked=%s raised %r' % (n, masked, e)); return
    if rest != trail or (g.data or b'') != f.data or g.payload_length != n:
        bad.append('parse n=%d masked=%s: rest=%r len=%r' % (n, masked, rest[:8], g.payload_length))
for n in (0, 1, 125, 126, 65535, 65536, 70000):
    for m in (False, True):
        rt(n, m)
for b in bad: print('DEFECT F5:', b)
sys.exit(1 if bad else 0)
