"""F3 (C02, C15): rebuilding a chunked request whose decoded body is empty must
still emit the terminating chunk `0 CRLF CRLF`.  exit 1 = defect present."""
import sys
from proxy.http.parser import HttpParser, httpParserTypes
raw = (b'POST http://h.com/x HTTP/1.1\r\nHost: h.com\r\nTransfer-Encoding: chunked\r\n\r\n'
       b'0\r\n\r\n')
p = HttpParser(httpParserTypes.REQUEST_PARSER)
p.parse(memoryview(raw))
assert p.is_complete and p.body == b'', (p.state, p.body)
out = p.build()
ok = out.endswith(b'\r\n\r\n0\r\n\r\n')
print('rebuilt:', out)
if not ok:
    print('DEFECT F3: chunked request with empty body rebuilt without terminating chunk')
    sys.exit(1)
