"""F23 (C04): a follow-up websocket-upgrade request that arrives split after its Connection and
Upgrade header lines: the next segment is relayed raw to the origin (the proxy believes the
upgrade already happened) and the first part is never forwarded.  exit 1 = defect."""
import sys
from unittest import mock
from proxy.http.proxy.server import HttpProxyPlugin
from proxy.http.parser import HttpParser
self = mock.MagicMock()
self.plugins = {}
self.upstream.closed = False
self.request = HttpParser.request(b'GET http://h.com/ HTTP/1.1\r\nHost: h.com\r\n\r\n')
self.pipeline_request = None
self.flags.disable_headers = []
self._tls_intercept_enabled = False
req = (b'GET http://h.com/ws HTTP/1.1\r\nHost: h.com\r\nConnection: Upgrade\r\nUpgrade: websocket\r\n',
       b'Sec-WebSocket-Key: abc\r\n\r\n')
for seg in req:
    HttpProxyPlugin.on_client_data(self, memoryview(seg))
sent = [bytes(c[0][0]) for c in self.upstream.queue.call_args_list]
print(sent)
whole = b''.join(sent)
if not (len(sent) == 1 and whole.startswith(b'GET /ws HTTP/1.1') and b'sec-websocket-key: abc' in whole.lower()):
    print('DEFECT F23: split upgrade request reached the origin as %r' % (sent,))
    sys.exit(1)
