"""F26 (C05, C06, C03): a chunk-size line with a negative number ("-5") is accepted by int(.., 16);
ChunkParser.process then never consumes its input (remaining < 0) while reporting `more`, so
ChunkParser.parse -- and with it HttpParser.parse and the worker that called it -- loops forever.
One client sending `Transfer-Encoding: chunked` + "-5\\r\\n..." hangs every connection of that worker.
exit 1 = defect (the parse does not return within the time limit)."""
import signal
import sys
from proxy.http.parser import HttpParser, httpParserTypes


class Hang(Exception):
    pass


def alarm(*a):
    raise Hang()


signal.signal(signal.SIGALRM, alarm)
bad = []
for size in (b'-5', b'-1', b'-ff'):
    p = HttpParser(httpParserTypes.REQUEST_PARSER)
    signal.alarm(3)
    try:
        p.parse(memoryview(b'POST http://h/x HTTP/1.1\r\nHost: h\r\nTransfer-Encoding: chunked\r\n\r\n' + size + b'\r\nabcdefghij'))
        outcome = 'returned, state=%s' % p.state
    except Hang:
        outcome = 'HANG'
        bad.append(size)
    except Exception as e:      # rejecting the message is fine
        outcome = 'rejected: %r' % (e,)
    finally:
        signal.alarm(0)
    print('chunk-size %r: %s' % (size, outcome))
if bad:
    print('DEFECT F26: parse() does not terminate for chunk sizes %r' % bad)
    sys.exit(1)
