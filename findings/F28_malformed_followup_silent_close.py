"""F28 (C06): a malformed request that is NOT the first one on a keep-alive connection (bad
Content-Length, broken request line) makes the proxy drop the connection without any response:
ValueError escapes HttpProtocolHandler.handle_data (the worker then tears the work down), or
HttpProtocolException is turned into a silent teardown.  The first request gets a 400 for the same bytes.
exit 1 = defect."""
import logging
import sys
from unittest import mock
logging.disable(logging.CRITICAL)
from proxy.common.flag import FlagParser
from proxy.http.handler import HttpProtocolHandler
from proxy.http.connection import HttpClientConnection
import proxy.http.proxy.server as srv
flags = FlagParser.initialize(threaded=False)


class FakeUp(object):
    def __init__(self, host, port):
        self.addr, self.closed, self.buffer = (host, port), True, []

    def connect(self, addr=None, source_address=None):
        self.closed = False
        self.connection = mock.MagicMock()

    def queue(self, mv):
        pass

    def has_buffer(self):
        return False

    def close(self):
        self.closed = True


bad = []
for follow in (b'POST http://h.example/2 HTTP/1.1\r\nHost: h.example\r\nContent-Length: x\r\n\r\n', b'BROKEN\r\n\r\n',
               b'PUT http://h.example/3 HTTP/1.1\r\nTransfer-Encoding: chunked\r\n\r\nzz\r\n'):
    sock = mock.MagicMock()
    sock.fileno.return_value = 11
    h = HttpProtocolHandler(HttpClientConnection(sock, ('127.0.0.1', 9)), flags=flags)
    with mock.patch.object(srv, 'TcpServerConnection', FakeUp):
        assert h.handle_data(memoryview(b'GET http://h.example/ HTTP/1.1\r\nHost: h.example\r\n\r\n')) is False
        try:
            r = h.handle_data(memoryview(follow))
            outcome = 'returned %r' % (r,)
        except Exception as e:      # noqa
            r, outcome = True, 'raised %r' % (e,)
    out = b''.join(bytes(x) for x in h.work.buffer)
    print('%-40r -> %s, sent to client: %r' % (follow[:38], outcome, out[:40]))
    if r and not out.startswith(b'HTTP/1.1 400'):
        bad.append(follow)
if bad:
    print('DEFECT F28: %d malformed follow-up requests are answered by a silent close' % len(bad))
    sys.exit(1)
