"""F27 (C05, C06, C03): `Content-Length: 5` followed by a second `Content-Length: 0` (or a negative
value): add_header() overwrites the value, but _content_expected stays True, so _process_body takes
raw[:0 - received] = nothing, never reaches the declared length and keeps reporting `more` on the
same bytes: HttpParser.parse -- and the worker calling it -- loops forever.  exit 1 = defect."""
import signal
import sys
from proxy.http.parser import HttpParser, httpParserTypes


class Hang(Exception):
    pass


def alarm(*a):
    raise Hang()


signal.signal(signal.SIGALRM, alarm)
bad = []
for second in (b'0', b'-3', b'00'):
    for ptype, head in ((httpParserTypes.REQUEST_PARSER, b'POST http://h/x HTTP/1.1\r\nHost: h\r\n'),
                        (httpParserTypes.RESPONSE_PARSER, b'HTTP/1.1 200 OK\r\n')):
        p = HttpParser(ptype)
        signal.alarm(3)
        try:
            p.parse(memoryview(head + b'Content-Length: 5\r\nContent-Length: ' + second + b'\r\n\r\nhello'))
            outcome = 'returned, state=%s body=%r' % (p.state, p.body)
        except Hang:
            outcome = 'HANG'
            bad.append((ptype, second))
        except Exception as e:      # rejecting the message is fine
            outcome = 'rejected: %r' % (e,)
        finally:
            signal.alarm(0)
        print('type %s, second Content-Length %r: %s' % (ptype, second, outcome))
if bad:
    print('DEFECT F27: parse() does not terminate for %r' % bad)
    sys.exit(1)
