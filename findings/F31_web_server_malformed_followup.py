"""F31 (C06): built-in web server, second request on a keep-alive connection to a route: a request that
fails to parse (bad Content-Length) lets ValueError escape handle_data, a broken request line or a request
of unknown protocol ends in a silent teardown -- the connection is dropped without a response, while the
same bytes as a first request get 400.  exit 1 = defect."""
import logging
import sys
from unittest import mock
logging.disable(logging.CRITICAL)
from proxy.common.flag import FlagParser
from proxy.http.handler import HttpProtocolHandler
from proxy.http.connection import HttpClientConnection
flags = FlagParser.initialize(threaded=False, enable_web_server=True, plugins=[b'proxy.plugin.WebServerPlugin'])
first = b'GET /http-route-example HTTP/1.1\r\nHost: x\r\n\r\n'
bad = []
for follow in (b'POST /http-route-example HTTP/1.1\r\nContent-Length: x\r\n\r\n', b'BROKEN\r\n\r\n', b' GET /x HTTP/1.1\r\n\r\n',
               b'PUT /http-route-example HTTP/1.1\r\nTransfer-Encoding: chunked\r\n\r\n-5\r\n'):
    sock = mock.MagicMock()
    sock.fileno.return_value = 11
    h = HttpProtocolHandler(HttpClientConnection(sock, ('127.0.0.1', 9)), flags=flags)
    assert h.handle_data(memoryview(first)) is False
    del h.work.buffer[:]
    h.work._num_buffer = 0
    try:
        r = h.handle_data(memoryview(follow))
        outcome = 'returned %r' % (r,)
    except Exception as e:      # noqa
        r, outcome = True, 'raised %r' % (e,)
    out = b''.join(bytes(x) for x in h.work.buffer)
    print('%-38r -> %s, sent: %r' % (follow[:36], outcome[:70], out[:24]))
    if outcome.startswith('raised') or (r and not out.startswith(b'HTTP/1.1 400')):
        bad.append(follow)
if bad:
    print('DEFECT F31: %d malformed follow-up requests to the web server are answered by a dropped connection' % len(bad))
    sys.exit(1)
