"""F9 (C05, C10): an exception raised by a work's shutdown() must not escape
Threadless._cleanup (it would stop the worker) and the work must be forgotten.
exit 1 = defect."""
import sys
from unittest import mock
from proxy.core.work.threadless import Threadless
self = mock.MagicMock()
w = mock.MagicMock(); w.shutdown.side_effect = UnicodeDecodeError('utf-8', b'\xff', 0, 1, 'invalid start byte')
other = mock.MagicMock()
self.works = {7: w, 9: other}
self.registered_events_by_work_ids = {7: {7: 1}, 9: {9: 1}}
self.work_queue_fileno.return_value = None
try:
    Threadless._cleanup(self, 7)
except Exception as e:
    print('DEFECT F9: %r escaped _cleanup; works=%r' % (e, sorted(self.works)))
    sys.exit(1)
if 7 in self.works or 7 in self.registered_events_by_work_ids or 9 not in self.works:
    print('DEFECT F9: bookkeeping wrong after failing shutdown', self.works, self.registered_events_by_work_ids)
    sys.exit(1)
