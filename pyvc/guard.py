"""Watchdog for native (CPython) execution of the code under test inside a check: a change that makes
the real code loop forever must end the bounded sweep with a witness, not hang the check."""
import contextlib
import signal


class NativeTimeout(BaseException):
    """BaseException on purpose: harnesses catch Exception around the code under test"""


@contextlib.contextmanager
def time_limit(seconds):
    def on_alarm(signum, frame):
        raise NativeTimeout('no result within %ss' % seconds)
    try:
        old = signal.signal(signal.SIGALRM, on_alarm)
    except ValueError:          # not in the main thread: no watchdog available
        yield
        return
    prev = signal.setitimer(signal.ITIMER_REAL, seconds)
    try:
        yield
    finally:
        signal.setitimer(signal.ITIMER_REAL, 0)
        signal.signal(signal.SIGALRM, old)
        if prev and prev[0] > 0:        # restore an enclosing limit (approximately)
            signal.signal(signal.SIGALRM, old)
            signal.setitimer(signal.ITIMER_REAL, prev[0])
