"""Per-function verification driver: symbolic pre-state from the contract, run
the real body, turn exits into named obligations, discharge them."""
import ast
import importlib
import os
import time

import z3

from .vals import *          # noqa: F401,F403
from .engine import (Unsupported, SpecError, SpecEnv, State, Frame, Registry, Contract, fresh_name,
                     SourceIndex, REPO, truthy)
from .execu import Exec
from .calls import ann_to_type, resolve_exc
from . import smt


class Obl(object):
    __slots__ = ('prop', 'func', 'clause', 'path', 'assumptions', 'goal', 'kind', 'meta', 'verdict',
                 'backend', 'seconds', 'model', 'outputs', 'inputs')

    def __init__(self, prop, func, clause, path, assumptions, goal, kind, meta=None, inputs=()):
        self.prop, self.func, self.clause, self.path = prop, func, clause, path
        self.assumptions, self.goal, self.kind = assumptions, goal, kind
        self.meta = meta or {}
        self.verdict = None
        self.backend = None
        self.seconds = 0.0
        self.model = None
        self.outputs = {}
        self.inputs = list(inputs)

    @property
    def name(self):
        return '%s/%s/%s' % (self.prop, self.func, self.clause)

    @property
    def full(self):
        return '%s/%s' % (self.name, self.path)


def module_of_file(relpath):
    mod = relpath[:-3].replace('/', '.')
    if mod.endswith('.__init__'):
        mod = mod[:-9]
    return importlib.import_module(mod)


def collect_consts(v, st, acc, seen):
    if isinstance(v, (VInt, VBool, VStr, VSeq)):
        acc.append(v.t)
    elif isinstance(v, VOpaque):
        acc.append(v.ident)
    elif isinstance(v, VOpt):
        acc.append(v.isnone)
        collect_consts(v.val, st, acc, seen)
    elif isinstance(v, VTuple):
        for i in v.items:
            collect_consts(i, st, acc, seen)
    elif isinstance(v, VRef):
        if v.ref in seen:
            return
        seen.add(v.ref)
        h = st.heap[v.ref]
        if isinstance(h, HObj):
            for f in h.fields.values():
                collect_consts(f, st, acc, seen)
        elif isinstance(h, HList):
            if h.seq is not None:
                acc.append(h.seq)
        elif isinstance(h, HDict):
            if h.keys is not None:
                acc.append(h.keys)
            acc.extend(h.maps)


class FunctionResult(object):
    def __init__(self, contract):
        self.contract = contract
        self.obls = []
        self.paths = 0
        self.exits = {}
        self.hash = None
        self.source_lines = 0
        self.error = None
        self.bounded = []
        self.seconds = 0.0
        self.path_feasible = []


def verify_function(ex, c, prop):
    """Verify c; when the contract declares `cases` (a ghost case split), once per case plus an
    exhaustiveness obligation."""
    cases = getattr(c, 'cases', None)
    if not cases:
        return verify_function1(ex, c, prop, None)
    total = None
    for cname, ctext in cases:
        fr = verify_function1(ex, c, prop, (cname, ctext))
        if total is None:
            total = fr
        else:
            total.obls += fr.obls
            total.paths += fr.paths
            for k, v in fr.exits.items():
                total.exits[k] = total.exits.get(k, 0) + v
            total.seconds += fr.seconds
            total.bounded += fr.bounded
    return total


def verify_function1(ex, c, prop, case):
    """Returns FunctionResult with undischarged obligations."""
    t0 = time.time()
    fres = FunctionResult(c)
    node = ex.src.find(c.file, c.qualname)
    fres.hash = ex.src.hash_of(c.file, node)
    fres.source_lines = (node.end_lineno - node.lineno + 1)
    mod = module_of_file(c.file)
    pycls = None
    if '.' in c.qualname:
        pycls = getattr(mod, c.qualname.split('.')[0])
    st = State()
    env = {}
    a = node.args
    names = [x.arg for x in a.posonlyargs + a.args + a.kwonlyargs]
    anns = {x.arg: x.annotation for x in a.posonlyargs + a.args + a.kwonlyargs}
    is_static = any(isinstance(d, ast.Name) and d.id == 'staticmethod' for d in node.decorator_list)
    is_cls = any(isinstance(d, ast.Name) and d.id == 'classmethod' for d in node.decorator_list)
    for i, nm in enumerate(names):
        if i == 0 and pycls is not None and not is_static:
            if is_cls:
                env[nm] = VPy(pycls)
            else:
                env[nm] = ex.fresh(('obj', c.self_cls or pycls.__name__), 'self', st)
            continue
        t = c.params.get(nm) or ann_to_type(anns.get(nm))
        if t is None:
            raise Unsupported('parameter %s of %s has no usable type; declare it in the contract' % (nm, c.qualname))
        env[nm] = ex.fresh(t, nm, st)
    if a.vararg is not None:
        t = c.params.get(a.vararg.arg)
        if t is None:
            raise Unsupported('*%s of %s needs a tuple type in the contract' % (a.vararg.arg, c.qualname))
        env[a.vararg.arg] = ex.fresh(t, a.vararg.arg, st)
    # ghost parameters
    for g, t in c.ghost.items():
        env[g] = ex.fresh(t, g, st)
    # aliases declared by the sidecar: e.g. {'self.plugin.client': 'self.work'}
    for dst, srcp in getattr(c, 'alias', {}).items():
        set_path(st, env, dst, get_path(st, env, srcp))
    st.env = env
    st.ghost['now'] = VInt(z3.Int(fresh_name('now')))
    for gname, gtype in c.ghost_init.items():
        st.ghost[gname] = ex.fresh(gtype, gname, st)
    # assume requires + invariants
    senv0 = SpecEnv(st, dict(env))
    for nm, text in c.requires + c.inv:
        st.assume(ex.spec.bool(text, senv0))
    if case is not None:
        pre_only = list(st.pc)
        st.assume(ex.spec.bool(case[1], senv0))
        if case is c.cases[0]:
            disj = z3.Or([ex.spec.bool(t, senv0) for _, t in c.cases])
            fres.obls.append(Obl(prop, c.qualname, 'cases-exhaustive', 'entry', pre_only, disj, 'cases'))
        st.trace.append('[%s]' % case[0])
    for ax in ex.spec.side:
        st.assume(ax)
    ex.spec.side = []
    for ut in c.uses:
        st.assume(ex.spec.bool(ut, senv0))
    for ax in ex.spec.side:
        st.assume(ax)
    ex.spec.side = []
    hint_obls = []
    for hi, (hcase, htext) in enumerate(c.hints):
        if hcase is not None and (case is None or case[0] != hcase):
            continue
        hg = ex.spec.bool(htext, senv0)
        hside = list(ex.spec.side)
        ex.spec.side = []
        hint_obls.append((hi, list(st.pc) + hside, hg))
        st.assume(hg)
    inputs = []
    seen = set()
    for v in env.values():
        collect_consts(v, st, inputs, seen)
    inputs0 = inputs
    env = dict(env)      # entry bindings of the parameters (st.env is rebound by assignments in the body)
    pre = st.fork()
    pre_env = SpecEnv(pre, dict(env))
    fr = Frame(mod, pycls, c.qualname, node, c.file, contract=c, depth=0)
    fr.root = fr
    fr.pre_env = pre_env
    ex.cur = fr
    for hi, assum, hg in hint_obls:
        fres.obls.append(Obl(prop, c.qualname, 'hint%d' % hi, 'entry' + ('[%s]' % case[0] if case else ''), assum, hg,
                             'hint', inputs=inputs))
    ex.prune = bool(c.prune)
    # vacuity: precondition satisfiable
    fres.obls.append(Obl(prop, c.qualname, 'vacuity.pre-satisfiable', 'entry', list(st.pc), z3.BoolVal(False),
                         'cover', inputs=inputs))
    body = node.body
    if c.body_slice:
        first, last = c.body_slice
        srcs = [ex.src.source_of(c.file, s_) for s_ in body]
        i0 = next((i for i, t in enumerate(srcs) if first in t), None)
        i1 = next((i for i, t in enumerate(srcs) if last in t), None)
        if i0 is None or i1 is None or i1 < i0:
            raise Unsupported('slice of %s not found (%r .. %r)' % (c.qualname, first, last))
        body = body[i0:i1 + 1]
        fres.sliced = 'statements %d..%d of %d (lines %d-%d); the rest of the function is not covered' % (
            i0, i1, len(srcs), body[0].lineno, body[-1].end_lineno)
    outs = ex.exec_block(body, st, fr)
    fres.paths = len(outs)
    if len(outs) > 1500:
        raise Unsupported('%s: %d paths — too many to discharge (loop invariant inapplicable and unrolling explodes?)'
                          % (c.qualname, len(outs)))
    lemma_terms = []
    for k, v, s in outs:
        inputs = list(inputs0)
        envtrace = []
        for nt in s.notes:
            if nt[0] == 'env':
                if nt[2] == 'ret':
                    acc = []
                    collect_consts(nt[3], s, acc, set())
                    inputs += acc
                    envtrace.append({'call': nt[1], 'ret': [str(t) for t in acc]})
                else:
                    envtrace.append({'call': nt[1], 'raise': nt[3]})
        path = ''.join(s.trace) or '-'
        if len(path) > 60:
            import hashlib
            path = path[:40] + '~' + hashlib.sha1(path.encode()).hexdigest()[:8]
        kind = {'next': 'normal', 'ret': 'normal'}.get(k, k)
        fres.exits[kind] = fres.exits.get(kind, 0) + 1
        # obligations raised along the path (call-site preconditions, loop invariants)
        for nm, assum, goal, meta in s.obls:
            fres.obls.append(Obl(prop, c.qualname, nm, path, assum, goal, meta.get('kind', 'inline'), meta, inputs))
        if k == 'stop':
            continue
        # lemma instances for this function, evaluated in the exit state with old()
        extra = []
        if k in ('next', 'ret'):
            res = NONE if k == 'next' else v
            senv = SpecEnv(s, dict(env), pre_env, res)
            clauses = c.ensures + c.inv
            for lt in c.lemmas:
                extra.append(ex.spec.bool(lt, senv))
            for nm, text in clauses:
                goal = ex.spec.bool(text, senv)
                side = list(ex.spec.side)
                ex.spec.side = []
                fres.obls.append(Obl(prop, c.qualname, nm, path, list(s.pc) + extra + side, goal, 'post', {'env': envtrace}, inputs))
            fres.obls.append(Obl(prop, c.qualname, 'vacuity.path-feasible', path, list(s.pc), z3.BoolVal(False),
                                 'cover', {'exit': 'normal'}, inputs))
        elif k == 'exc':
            allowed = None
            for exname, posts in c.raises.items():
                if issubclass(v.cls, resolve_exc(exname)):
                    allowed = (exname, posts)
                    break
            if allowed is None:
                # the exception must not escape: the path has to be infeasible
                fres.obls.append(Obl(prop, c.qualname, 'no-escape.%s' % v.cls.__name__, path, list(s.pc),
                                     z3.BoolVal(False), 'noraise', {'exception': v.cls.__name__, 'env': envtrace}, inputs))
            else:
                senv = SpecEnv(s, dict(env), pre_env, None, v)
                for lt in c.lemmas:
                    extra.append(ex.spec.bool(lt, senv))
                for nm, text in allowed[1] + c.inv:
                    goal = ex.spec.bool(text, senv)
                    side = list(ex.spec.side)
                    ex.spec.side = []
                    fres.obls.append(Obl(prop, c.qualname, nm, path, list(s.pc) + extra + side, goal, 'raise-post',
                                         {'exception': v.cls.__name__, 'env': envtrace}, inputs))
                fres.obls.append(Obl(prop, c.qualname, 'vacuity.path-feasible', path, list(s.pc), z3.BoolVal(False),
                                     'cover', {'exit': v.cls.__name__}, inputs))
        else:
            raise Unsupported('%s escaped function %s' % (k, c.qualname))
    for why, pc_, tr in getattr(ex, 'subset_obls', []):
        fres.obls.append(Obl(prop, c.qualname, why, tr[:60] or '-', pc_, z3.BoolVal(False), 'subset', {}, inputs0))
    ex.subset_obls = []
    fres.bounded = list(ex.bounded)
    ex.bounded = []
    fres.seconds = time.time() - t0
    return fres


def get_path(st, env, path):
    parts = path.split('.')
    v = env[parts[0]]
    for p in parts[1:]:
        if isinstance(v, VOpt):
            v = v.val
        v = st.heap[v.ref].fields[p]
    return v


def set_path(st, env, path, val):
    parts = path.split('.')
    v = env[parts[0]]
    for p in parts[1:-1]:
        if isinstance(v, VOpt):
            v = v.val
        v = st.heap[v.ref].fields[p]
    if isinstance(v, VOpt):
        v = v.val
    st.heap[v.ref].fields[parts[-1]] = val


# ------------------------------------------------------------------ discharge

def input_names(ob):
    names = []
    for t in ob.inputs:
        try:
            if z3.is_const(t) and t.decl().kind() == z3.Z3_OP_UNINTERPRETED:
                names.append(t.decl().name())
        except Exception:
            pass
    return names


def consts_in(asserts):
    seen = set()
    names = set()
    stack = list(asserts)
    while stack:
        t = stack.pop()
        k = t.get_id()
        if k in seen:
            continue
        seen.add(k)
        if z3.is_quantifier(t):
            stack.append(t.body())
            continue
        if z3.is_app(t):
            if t.num_args() == 0 and t.decl().kind() == z3.Z3_OP_UNINTERPRETED:
                names.add(t.decl().name())
            stack.extend(t.children())
    return names


def smt_name(n):
    import re
    if re.fullmatch(r'[A-Za-z_][A-Za-z0-9_.!?@$%^&*<>=+-]*', n) and not n[0].isdigit():
        return n
    return '|%s|' % n


def slice_direct(assumptions, goal):
    """only the assumptions that share a symbol with the goal itself (one step)"""
    gs = consts_and_funcs([goal])
    return [a for a in assumptions if consts_and_funcs([a]) & gs]


def slice_assumptions(assumptions, goal):
    """cone of influence: keep the assumptions that (transitively) share a symbol with the goal.
    Dropping assumptions only weakens the hypothesis, so `unsat` for the slice is a proof."""
    gs = consts_and_funcs([goal])
    syms = [consts_and_funcs([a]) for a in assumptions]
    keep = [False] * len(assumptions)
    changed = True
    while changed:
        changed = False
        for i, sy in enumerate(syms):
            if not keep[i] and (sy & gs):
                keep[i] = True
                gs |= sy
                changed = True
    return [a for a, k in zip(assumptions, keep) if k]


def consts_and_funcs(terms):
    seen = set()
    names = set()
    stack = list(terms)
    while stack:
        t = stack.pop()
        k = t.get_id()
        if k in seen:
            continue
        seen.add(k)
        if z3.is_quantifier(t):
            stack.append(t.body())
            continue
        if z3.is_app(t):
            if t.decl().kind() == z3.Z3_OP_UNINTERPRETED:
                names.add(t.decl().name())
            stack.extend(t.children())
    return names


def discharge(obls, budget=10.0, workers=None):
    """cover obligations: expected SAT (goal False, assumptions satisfiable).
    everything else: assumptions and not goal expected UNSAT; first on the cone-of-influence
    slice of the assumptions, then (if that is not unsat) on all of them."""
    jobs = []
    staged = []
    for ob in obls:
        if ob.verdict is not None and ob.kind == 'enumerated':
            continue
        if ob.kind == 'cover':
            asserts = list(ob.assumptions)
            if not asserts or z3.is_true(z3.simplify(z3.And(asserts))):
                ob.verdict, ob.backend = 'sat', 'simplify'
                continue
            jobs.append((ob, (ob.full, smt.to_smt2(asserts, []), False, False), False))
            continue
        full = list(ob.assumptions) + [z3.Not(ob.goal)]
        simp = z3.simplify(z3.And(full))
        if z3.is_false(simp):
            ob.verdict = 'unsat'
            ob.backend = 'simplify'
            continue
        stages = []
        sd = slice_direct(list(ob.assumptions), ob.goal)
        sl = slice_assumptions(list(ob.assumptions), ob.goal)
        if len(sd) < len(sl):
            stages.append(('#direct', sd))
        if len(sl) < len(ob.assumptions):
            stages.append(('#slice', sl))
        staged.append((ob, stages))
    # stage by stage: smaller hypothesis sets first (unsat there is a proof), the full set last
    pending = staged
    for level in range(2):
        batch = [(ob, st[level]) for ob, st in pending if len(st) > level]
        if not batch:
            continue
        res = smt.solve_many([(ob.full + tag, smt.to_smt2(asm + [z3.Not(ob.goal)], []), False, False) for ob, (tag, asm) in batch],
                             budget=min(budget, 12.0), workers=workers)
        for (ob, (tag, _)), r in zip(batch, res):
            ob.seconds += r['seconds']
            if r['verdict'] == 'unsat':
                _record(ob, r, ' (%s)' % tag[1:])
        pending = [(ob, st) for ob, st in pending if ob.verdict != 'unsat']
    retry = [ob for ob, _ in pending if ob.verdict != 'unsat']
    results = smt.solve_many([j[1] for j in jobs], budget=budget, workers=workers)
    for (ob, _, _), r in zip(jobs, results):
        ob.seconds += r['seconds']
        _record(ob, r, '')
    if retry:
        results = smt.solve_many([_full_job(ob) for ob in retry], budget=budget, workers=workers)
        for ob, r in zip(retry, results):
            ob.seconds += r['seconds']
            _record(ob, r, '')
    open_ = [ob for ob in obls if ob.kind not in ('cover', 'enumerated') and ob.verdict not in ('sat', 'unsat')]
    if open_ and len(open_) <= 8 and os.environ.get('PYVC_INSTANTIATE'):
        refute_by_instantiation(open_, budget=min(budget, 10.0), workers=workers)
    return obls


BOUNDARY_LENGTHS = [0, 1, 125, 126, 127, 65535, 65536, 65537]


def refute_by_instantiation(obls, budget=10.0, lengths=None, workers=None):
    """For obligations both solvers left open: look for a counterexample among concrete
    boundary-length strings ('A' * L substituted for one string input at a time).  Each instance
    is an under-approximation, so `sat` is a genuine counter-model; nothing else is concluded."""
    lengths = lengths or BOUNDARY_LENGTHS
    jobs = []
    for ob in obls:
        asserts = list(ob.assumptions) + [z3.Not(ob.goal)]
        present = consts_in(asserts)
        svars = [t for t in ob.inputs if z3.is_const(t) and t.decl().name() in present
                 and t.sort() == z3.StringSort() and not t.decl().name().startswith('ret.')]
        for v in svars[:2]:
            for L in lengths:
                sub = [z3.substitute(a, (v, z3.StringVal('A' * L))) for a in asserts]
                gv = [smt_name(n) for n in input_names(ob) if n in consts_in(sub)]
                jobs.append((ob, v, L, (ob.full + '#inst', smt.to_smt2(sub, gv), bool(gv), True)))
    if not jobs:
        return
    results = smt.solve_many([j[3] for j in jobs], budget=budget, workers=workers)
    for (ob, v, L, _), r in zip(jobs, results):
        if r['verdict'] == 'sat' and ob.verdict != 'sat':
            ob.verdict = 'sat'
            ob.backend = (r['backend'] or '') + ' (boundary instance %s := 65*%d)' % (v.decl().name(), L)
            ob.outputs = r['outputs']
            ob.model = smt.parse_get_value(r.get('model_text', ''))
            ob.model[v.decl().name()] = 'A' * L


def _full_job(ob):
    asserts = list(ob.assumptions) + [z3.Not(ob.goal)]
    present = consts_in(asserts)
    gv = [smt_name(n) for n in input_names(ob) if n in present]
    return (ob.full, smt.to_smt2(asserts, gv), bool(gv), True)


def _record(ob, r, suffix):
    ob.verdict = r['verdict']
    ob.backend = (r['backend'] or 'none') + suffix if r['backend'] else None
    ob.outputs = r['outputs']
    if r['verdict'] in ('sat', 'sat?') and ob.kind != 'cover':
        ob.model = smt.parse_get_value(r.get('model_text', ''))


def status(ob):
    """'proved' | 'failed' | 'undecided' | 'covered' | 'dead'"""
    if ob.kind == 'cover':
        if ob.verdict == 'sat':
            return 'covered'
        if ob.verdict == 'unsat':
            return 'dead'
        return 'undecided'
    if ob.verdict == 'unsat':
        return 'proved'
    if ob.verdict == 'sat':
        return 'failed'
    if ob.verdict == 'sat?':
        return 'failed-unconfirmed'
    return 'undecided'
