"""Per-function verification driver: symbolic pre-state from the contract, run
the real body, turn exits into named obligations, discharge them."""
import ast
import importlib
import os
import time

import z3

from .vals import *          # noqa: F401,F403
from .engine import (Unsupported, SpecError, SpecEnv, State, Frame, Registry, Contract, fresh_name,
                     SourceIndex, REPO, truthy)
from .execu import Exec
from .calls import ann_to_type, resolve_exc
from . import smt


class Obl(object):
    __slots__ = ('prop', 'func', 'clause', 'path', 'assumptions', 'goal', 'kind', 'meta', 'verdict',
                 'backend', 'seconds', 'model', 'outputs', 'inputs')

    def __init__(self, prop, func, clause, path, assumptions, goal, kind, meta=None, inputs=()):
        self.prop, self.func, self.clause, self.path = prop, func, clause, path
        self.assumptions, self.goal, self.kind = assumptions, goal, kind
        self.meta = meta or {}
        self.verdict = None
        self.backend = None
        self.seconds = 0.0
        self.model = None
        self.outputs = {}
        self.inputs = list(inputs)

    @property
    def name(self):
        return '%s/%s/%s' % (self.prop, self.func, self.clause)

    @property
    def full(self):
        return '%s/%s' % (self.name, self.path)


def module_of_file(relpath):
    mod = relpath[:-3].replace('/', '.')
    if mod.endswith('.__init__'):
        mod = mod[:-9]
    return importlib.import_module(mod)


def collect_consts(v, st, acc, seen):
    if isinstance(v, (VInt, VBool, VStr, VSeq)):
        acc.append(v.t)
    elif isinstance(v, VOpaque):
        acc.append(v.ident)
    elif isinstance(v, VOpt):
        acc.append(v.isnone)
        collect_consts(v.val, st, acc, seen)
    elif isinstance(v, VTuple):
        for i in v.items:
            collect_consts(i, st, acc, seen)
    elif isinstance(v, VRef):
        if v.ref in seen:
            return
        seen.add(v.ref)
        h = st.heap[v.ref]
        if isinstance(h, HObj):
            for f in h.fields.values():
                collect_consts(f, st, acc, seen)
        elif isinstance(h, HList):
            if h.seq is not None:
                acc.append(h.seq)
        elif isinstance(h, HDict):
            if h.keys is not None:
                acc.append(h.keys)
            acc.extend(h.maps)



class FunctionResult(object):
    def __init__(self, contract):
        self.contract = contract
        self.obls = []
        self.paths = 0
        self.exits = {}
        self.hash = None
        self.source_lines = 0
        self.error = None
        self.bounded = []
        self.seconds = 0.0
        self.path_feasible = []


def verify_function(ex, c, prop):
    """Verify c; when the contract declares `cases` (a ghost case split), once per case plus an
    exhaustiveness obligation."""
    cases = getattr(c, 'cases', None)
    if not cases:
        return verify_function1(ex, c, prop, None)
    total = None
    for cname, ctext in cases:
        fr = verify_function1(ex, c, prop, (cname, ctext))
        if total is None:
            total = fr
        else:
            total.obls += fr.obls
            total.paths += fr.paths
            for k, v in fr.exits.items():
                total.exits[k] = total.exits.get(k, 0) + v
            total.seconds += fr.seconds
            total.bounded += fr.bounded
    return total


def _literals(reg, c, node):
    import re
    lits = []

    def add(v):
        if isinstance(v, bytes) and 0 < len(v) <= 40 and v not in lits:
            lits.append(v)
    for n in ast.walk(node):
        if isinstance(n, ast.Constant):
            add(n.value)
    called = set()
    for n in ast.walk(node):
        if isinstance(n, ast.Call):
            f = n.func
            called.add(f.id if isinstance(f, ast.Name) else (f.attr if isinstance(f, ast.Attribute) else None))
    for cc in [c] + [x for x in reg.contracts.values() if x.qualname.split('.')[-1] in called]:
        texts = [t for _, t in cc.requires + cc.ensures + cc.inv] + [t for cl in cc.raises.values() for _, t in cl]
        for ls in cc.loops.values():
            texts += list(ls.inv)
        for t in texts:
            if not isinstance(t, str):
                continue
            try:
                for n in ast.walk(ast.parse(re.sub(r'==>', ' or ', t.strip()), mode='eval')):
                    if isinstance(n, ast.Constant):
                        add(n.value)
            except SyntaxError:
                pass
    return lits[:60]


def verify_function1(ex, c, prop, case):
    """Returns FunctionResult with undischarged obligations."""
    t0 = time.time()
    fres = FunctionResult(c)
    node = ex.src.find(c.file, c.qualname)
    fres.hash = ex.src.hash_of(c.file, node)
    fres.source_lines = (node.end_lineno - node.lineno + 1)
    mod = module_of_file(c.file)
    pycls = None
    if '.' in c.qualname:
        pycls = getattr(mod, c.qualname.split('.')[0])
    # byte-string literals of the function under verification, of its contract and of the contracts
    # of the functions it calls: spec functions over strings (lower) state their value on these
    # literals (ground facts), so `k == b'Lit'` decides `k.lower()`
    ex.reg.literals = _literals(ex.reg, c, node)
    st = State()
    env = {}
    a = node.args
    names = [x.arg for x in a.posonlyargs + a.args + a.kwonlyargs]
    anns = {x.arg: x.annotation for x in a.posonlyargs + a.args + a.kwonlyargs}
    is_static = any(isinstance(d, ast.Name) and d.id == 'staticmethod' for d in node.decorator_list)
    is_cls = any(isinstance(d, ast.Name) and d.id == 'classmethod' for d in node.decorator_list)
    for i, nm in enumerate(names):
        if i == 0 and pycls is not None and not is_static:
            if is_cls:
                env[nm] = VPy(pycls)
            else:
                env[nm] = ex.fresh(('obj', c.self_cls or pycls.__name__), 'self', st)
            continue
        t = c.params.get(nm) or ann_to_type(anns.get(nm))
        if t is None:
            raise Unsupported('parameter %s of %s has no usable type; declare it in the contract' % (nm, c.qualname))
        env[nm] = ex.fresh(t, nm, st)
    if a.vararg is not None:
        t = c.params.get(a.vararg.arg)
        if t is None:
            raise Unsupported('*%s of %s needs a tuple type in the contract' % (a.vararg.arg, c.qualname))
        env[a.vararg.arg] = ex.fresh(t, a.vararg.arg, st)
    # ghost parameters
    for g, t in c.ghost.items():
        env[g] = ex.fresh(t, g, st)
    # aliases declared by the sidecar: e.g. {'self.plugin.client': 'self.work'}
    for dst, srcp in getattr(c, 'alias', {}).items():
        set_path(st, env, dst, get_path(st, env, srcp))
    st.env = env
    st.ghost['now'] = VInt(z3.Int(fresh_name('now')))
    for gname, gtype in c.ghost_init.items():
        st.ghost[gname] = ex.fresh(gtype, gname, st)
    # assume requires + invariants
    senv0 = SpecEnv(st, dict(env))
    for nm, text in c.requires + c.inv:
        st.assume(ex.spec.bool(text, senv0))
    if case is not None:
        pre_only = list(st.pc)
        st.assume(ex.spec.bool(case[1], senv0))
        if case is c.cases[0]:
            disj = z3.Or([ex.spec.bool(t, senv0) for _, t in c.cases])
            fres.obls.append(Obl(prop, c.qualname, 'cases-exhaustive', 'entry', pre_only, disj, 'cases'))
        st.trace.append('[%s]' % case[0])
    for ax in ex.spec.side:
        st.assume(ax)
    ex.spec.side = []
    for ut in c.uses:
        st.assume(ex.spec.bool(ut, senv0))
    for ax in ex.spec.side:
        st.assume(ax)
    ex.spec.side = []
    hint_obls = []
    for hi, (hcase, htext) in enumerate(c.hints):
        if hcase is not None and (case is None or case[0] != hcase):
            continue
        hg = ex.spec.bool(htext, senv0)
        hside = list(ex.spec.side)
        ex.spec.side = []
        hint_obls.append((hi, list(st.pc) + hside, hg))
        st.assume(hg)
    inputs = []
    seen = set()
    for v in env.values():
        collect_consts(v, st, inputs, seen)
    inputs0 = inputs
    env = dict(env)      # entry bindings of the parameters (st.env is rebound by assignments in the body)
    pre = st.fork()
    pre_env = SpecEnv(pre, dict(env))
    fr = Frame(mod, pycls, c.qualname, node, c.file, contract=c, depth=0)
    fr.root = fr
    fr.pre_env = pre_env
    ex.cur = fr
    for hi, assum, hg in hint_obls:
        fres.obls.append(Obl(prop, c.qualname, 'hint%d' % hi, 'entry' + ('[%s]' % case[0] if case else ''), assum, hg,
                             'hint', inputs=inputs))
    ex.prune = bool(c.prune)
    # vacuity: precondition satisfiable
    fres.obls.append(Obl(prop, c.qualname, 'vacuity.pre-satisfiable', 'entry', list(st.pc), z3.BoolVal(False),
                         'cover', inputs=inputs))
    body = node.body
    if c.body_slice:
        first, last = c.body_slice
        srcs = [ex.src.source_of(c.file, s_) for s_ in body]
        i0 = next((i for i, t in enumerate(srcs) if first in t), None)
        i1 = next((i for i, t in enumerate(srcs) if last in t), None)
        if i0 is None or i1 is None or i1 < i0:
            raise Unsupported('slice of %s not found (%r .. %r)' % (c.qualname, first, last))
        body = body[i0:i1 + 1]
        fres.sliced = 'statements %d..%d of %d (lines %d-%d); the rest of the function is not covered' % (
            i0, i1, len(srcs), body[0].lineno, body[-1].end_lineno)
    outs = ex.exec_block(body, st, fr)
    fres.paths = len(outs)
    if len(outs) > 1500:
        raise Unsupported('%s: %d paths — too many to discharge (loop invariant inapplicable and unrolling explodes?)'
                          % (c.qualname, len(outs)))
    lemma_terms = []
    for k, v, s in outs:
        inputs = list(inputs0)
        envtrace = []
        for nt in s.notes:
            if nt[0] == 'env':
                if nt[2] == 'ret':
                    acc = []
                    collect_consts(nt[3], s, acc, set())
                    inputs += acc
                    envtrace.append({'call': nt[1], 'ret': [str(t) for t in acc]})
                else:
                    envtrace.append({'call': nt[1], 'raise': nt[3]})
        path = ''.join(s.trace) or '-'
        if len(path) > 60:
            import hashlib
            path = path[:40] + '~' + hashlib.sha1(path.encode()).hexdigest()[:8]
        kind = {'next': 'normal', 'ret': 'normal'}.get(k, k)
        fres.exits[kind] = fres.exits.get(kind, 0) + 1
        # obligations raised along the path (call-site preconditions, loop invariants)
        for nm, assum, goal, meta in s.obls:
            fres.obls.append(Obl(prop, c.qualname, nm, path, assum, goal, meta.get('kind', 'inline'), meta, inputs))
        if k == 'stop':
            continue
        # lemma instances for this function, evaluated in the exit state with old()
        extra = []
        if k in ('next', 'ret'):
            res = NONE if k == 'next' else v
            senv = SpecEnv(s, dict(env), pre_env, res)
            clauses = c.ensures + c.inv
            for lt in c.lemmas:
                extra.append(ex.spec.bool(lt, senv))
            for nm, text in clauses:
                goal = ex.spec.bool(text, senv)
                side = list(ex.spec.side)
                ex.spec.side = []
                fres.obls.append(Obl(prop, c.qualname, nm, path, list(s.pc) + extra + side, goal, 'post', {'env': envtrace}, inputs))
            fres.obls.append(Obl(prop, c.qualname, 'vacuity.path-feasible', path, list(s.pc), z3.BoolVal(False),
                                 'cover', {'exit': 'normal'}, inputs))
        elif k == 'exc':
            allowed = None
            for exname, posts in c.raises.items():
                if issubclass(v.cls, resolve_exc(exname)):
                    allowed = (exname, posts)
                    break
            if allowed is None:
                # the exception must not escape: the path has to be infeasible
                fres.obls.append(Obl(prop, c.qualname, 'no-escape.%s' % v.cls.__name__, path, list(s.pc),
                                     z3.BoolVal(False), 'noraise', {'exception': v.cls.__name__, 'env': envtrace}, inputs))
            else:
                senv = SpecEnv(s, dict(env), pre_env, None, v)
                for lt in c.lemmas:
                    extra.append(ex.spec.bool(lt, senv))
                for nm, text in allowed[1] + c.inv:
                    goal = ex.spec.bool(text, senv)
                    side = list(ex.spec.side)
                    ex.spec.side = []
                    fres.obls.append(Obl(prop, c.qualname, nm, path, list(s.pc) + extra + side, goal, 'raise-post',
                                         {'exception': v.cls.__name__, 'env': envtrace}, inputs))
                fres.obls.append(Obl(prop, c.qualname, 'vacuity.path-feasible', path, list(s.pc), z3.BoolVal(False),
                                     'cover', {'exit': v.cls.__name__}, inputs))
        else:
            raise Unsupported('%s escaped function %s' % (k, c.qualname))
    for why, pc_, tr in getattr(ex, 'subset_obls', []):
        fres.obls.append(Obl(prop, c.qualname, why, tr[:60] or '-', pc_, z3.BoolVal(False), 'subset', {}, inputs0))
    ex.subset_obls = []
    fres.bounded = list(ex.bounded)
    ex.bounded = []
    fres.seconds = time.time() - t0
    return fres


def get_path(st, env, path):
    parts = path.split('.')
    v = env[parts[0]]
    for p in parts[1:]:
        if isinstance(v, VOpt):
            v = v.val
        v = st.heap[v.ref].fields[p]
    return v


def set_path(st, env, path, val):
    parts = path.split('.')
    v = env[parts[0]]
    for p in parts[1:-1]:
        if isinstance(v, VOpt):
            v = v.val
        v = st.heap[v.ref].fields[p]
    if isinstance(v, VOpt):
        v = v.val
    st.heap[v.ref].fields[parts[-1]] = val


# ------------------------------------------------------------------ discharge

def input_names(ob):
    names = []
    for t in ob.inputs:
        try:
            if z3.is_const(t) and t.decl().kind() == z3.Z3_OP_UNINTERPRETED:
                names.append(t.decl().name())
        except Exception:
            pass
    return names


def consts_in(asserts):
    seen = set()
    names = set()
    stack = list(asserts)
    while stack:
        t = stack.pop()
        k = t.get_id()
        if k in seen:
            continue
        seen.add(k)
        if z3.is_quantifier(t):
            stack.append(t.body())
            continue
        if z3.is_app(t):
            if t.num_args() == 0 and t.decl().kind() == z3.Z3_OP_UNINTERPRETED:
                names.add(t.decl().name())
            stack.extend(t.children())
    return names


def smt_name(n):
    import re
    if re.fullmatch(r'[A-Za-z_][A-Za-z0-9_.!?@$%^&*<>=+-]*', n) and not n[0].isdigit():
        return n
    return '|%s|' % n


def slice_direct(assumptions, goal):
    """only the assumptions that share a symbol with the goal itself (one step)"""
    gs = consts_and_funcs([goal])
    return [a for a in assumptions if consts_and_funcs([a]) & gs]


def mem_axioms(terms, depth=6):
    """Definitional instances of memof / idxof (vals.memof) for the sequence terms occurring in
    `terms` (of an element sort for which membership is used at all), closed under the prefixes they
    introduce.  All instances are true facts about real dicts (keys distinct, membership =
    occurrence in the key sequence)."""
    out, done = [], set()
    work = list(terms)
    sorts = set()
    for _ in range(depth):
        seqs, sels = [], []
        seen, stack = set(), list(work)
        while stack:
            t = stack.pop()
            k = t.get_id()
            if k in seen:
                continue
            seen.add(k)
            if z3.is_quantifier(t):
                continue            # terms under a binder mention bound variables: no instances from there
            if z3.is_app(t):
                if t.decl().kind() == z3.Z3_OP_UNINTERPRETED and t.decl().name().startswith('memof_'):
                    sorts.add(t.arg(0).sort().basis().name())
                    seqs.append(t.arg(0))
                if z3.is_select(t) and z3.is_app(t.arg(0)) and t.arg(0).decl().kind() == z3.Z3_OP_UNINTERPRETED \
                        and t.arg(0).decl().name().startswith('memof_'):
                    sels.append(t)
                if z3.is_seq(t) and not z3.is_string(t) and not z3.is_const(t):
                    seqs.append(t)
                stack.extend(t.children())
        new = []
        for sq in seqs:
            if sq.sort().basis().name() not in sorts or ('a', sq.get_id()) in done:
                continue
            done.add(('a', sq.get_id()))
            es = sq.sort().basis()
            a = memof(sq)
            if z3.is_app_of(sq, z3.Z3_OP_SEQ_EMPTY):
                new.append(a == z3.K(es, z3.BoolVal(False)))
            elif z3.is_app_of(sq, z3.Z3_OP_SEQ_UNIT):
                new.append(a == z3.Store(z3.K(es, z3.BoolVal(False)), sq.arg(0), z3.BoolVal(True)))
            elif z3.is_app_of(sq, z3.Z3_OP_SEQ_CONCAT) and z3.is_app_of(sq.arg(sq.num_args() - 1), z3.Z3_OP_SEQ_UNIT):
                ch = sq.children()
                pre = ch[0] if len(ch) == 2 else z3.Concat(*ch[:-1])
                new.append(a == z3.Store(memof(pre), ch[-1].arg(0), z3.BoolVal(True)))
            elif z3.is_app_of(sq, z3.Z3_OP_ITE):
                new.append(a == z3.If(sq.arg(0), memof(sq.arg(1)), memof(sq.arg(2))))
            else:
                # an empty key sequence has no member, whatever term denotes it
                new.append(z3.Implies(z3.Length(sq) == 0, a == z3.K(es, z3.BoolVal(False))))
        for t in sels:
            if ('s', t.get_id()) in done:
                continue
            done.add(('s', t.get_id()))
            sq, k = t.arg(0).arg(0), t.arg(1)
            j = idxof(sq, k)
            new.append(z3.Implies(t, z3.And(j >= 0, j < z3.Length(sq), sq[j] == k)))
        if not new:
            break
        out += new
        work = new
    return out


def funcs_of(terms):
    """uninterpreted function symbols of arity > 0"""
    seen, names, stack = set(), set(), list(terms)
    while stack:
        t = stack.pop()
        k = t.get_id()
        if k in seen:
            continue
        seen.add(k)
        if z3.is_quantifier(t):
            stack.append(t.body())
            continue
        if z3.is_app(t):
            if t.decl().kind() == z3.Z3_OP_UNINTERPRETED and t.num_args() > 0:
                names.add(t.decl().name())
            stack.extend(t.children())
    return names


def slice_lean(assumptions, goal):
    """the direct slice without the assumptions that bring in spec functions the goal does not
    mention (definitional instances of serialisers etc. are the bulk of most hypothesis sets)"""
    gs = consts_and_funcs([goal])
    gf = funcs_of([goal])
    return [a for a in assumptions if (consts_and_funcs([a]) & gs) and funcs_of([a]) <= gf]


def split_goal(goal):
    """P ==> (A and B)  ->  [P ==> A, P ==> B];  A and B -> [A, B]  (one level, recursively on the right)"""
    if z3.is_and(goal):
        out = []
        for ch in goal.children():
            out += split_goal(ch)
        return out
    if z3.is_implies(goal):
        return [z3.Implies(goal.arg(0), g) for g in split_goal(goal.arg(1))]
    if z3.is_app_of(goal, z3.Z3_OP_ITE) and goal.sort() == z3.BoolSort():
        c, a, b = goal.children()
        return [z3.Implies(c, g) for g in split_goal(a)] + [z3.Implies(z3.Not(c), g) for g in split_goal(b)]
    return [goal]


def prove_split(obls, budget, workers=None):
    """obligations the solvers left open as a whole: prove the conjuncts of the goal one by one,
    each on growing hypothesis slices.  Only ever concludes `unsat` (all conjuncts proved)."""
    items = []
    for ob in obls:
        parts = split_goal(ob.goal)
        if len(parts) < 2 or len(parts) > 12:
            continue
        for pi, g in enumerate(parts):
            asm = list(ob.assumptions)
            stages = [slice_lean(asm, g), slice_direct(asm, g), asm]
            items.append([ob, pi, g, stages, False])
    for level in range(3):
        batch = [it for it in items if not it[4]]
        if not batch:
            break
        res = smt.solve_many([('%s#part%d.%d' % (it[0].full, it[1], level), smt.to_smt2(it[3][level] + [z3.Not(it[2])], []), False, False)
                              for it in batch], budget=budget if level == 2 else min(budget, 12.0), workers=workers)
        for it, r in zip(batch, res):
            it[0].seconds += r['seconds']
            if r['verdict'] == 'unsat':
                it[4] = True
    for ob in obls:
        mine = [it for it in items if it[0] is ob]
        if mine and all(it[4] for it in mine):
            ob.verdict, ob.backend = 'unsat', 'goal split into %d conjuncts, each discharged' % len(mine)


def slice_assumptions(assumptions, goal):
    """cone of influence: keep the assumptions that (transitively) share a symbol with the goal.
    Dropping assumptions only weakens the hypothesis, so `unsat` for the slice is a proof."""
    gs = consts_and_funcs([goal])
    syms = [consts_and_funcs([a]) for a in assumptions]
    keep = [False] * len(assumptions)
    changed = True
    while changed:
        changed = False
        for i, sy in enumerate(syms):
            if not keep[i] and (sy & gs):
                keep[i] = True
                gs |= sy
                changed = True
    return [a for a, k in zip(assumptions, keep) if k]


def consts_and_funcs(terms):
    seen = set()
    names = set()
    stack = list(terms)
    while stack:
        t = stack.pop()
        k = t.get_id()
        if k in seen:
            continue
        seen.add(k)
        if z3.is_quantifier(t):
            stack.append(t.body())
            continue
        if z3.is_app(t):
            if t.decl().kind() == z3.Z3_OP_UNINTERPRETED:
                names.add(t.decl().name())
            stack.extend(t.children())
    return names


def discharge(obls, budget=10.0, workers=None):
    """cover obligations: expected SAT (goal False, assumptions satisfiable).
    everything else: assumptions and not goal expected UNSAT; first on the cone-of-influence
    slice of the assumptions, then (if that is not unsat) on all of them."""
    jobs = []
    staged = []
    for ob in obls:
        if ob.verdict is not None and ob.kind == 'enumerated':
            continue
        if ob.kind == 'cover':
            asserts = list(ob.assumptions)
            if not asserts or z3.is_true(z3.simplify(z3.And(asserts))):
                ob.verdict, ob.backend = 'sat', 'simplify'
                continue
            jobs.append((ob, (ob.full, smt.to_smt2(asserts, []), False, False), False))
            continue
        ob.assumptions = list(ob.assumptions) + mem_axioms(list(ob.assumptions) + [ob.goal])
        full = list(ob.assumptions) + [z3.Not(ob.goal)]
        simp = z3.simplify(z3.And(full))
        if z3.is_false(simp):
            ob.verdict = 'unsat'
            ob.backend = 'simplify'
            continue
        stages = []
        sd = slice_direct(list(ob.assumptions), ob.goal)
        sl = slice_assumptions(list(ob.assumptions), ob.goal)
        sn = slice_lean(list(ob.assumptions), ob.goal)
        if len(sn) < len(sd):
            stages.append(('#lean', sn))
        if len(sd) < len(sl):
            stages.append(('#direct', sd))
        if len(sl) < len(ob.assumptions):
            stages.append(('#slice', sl))
        staged.append((ob, stages))
    # stage by stage: smaller hypothesis sets first (unsat there is a proof), the full set last
    pending = staged
    for level in range(3):
        batch = [(ob, st[level]) for ob, st in pending if len(st) > level]
        if not batch:
            continue
        res = smt.solve_many([(ob.full + tag, smt.to_smt2(asm + [z3.Not(ob.goal)], []), False, False) for ob, (tag, asm) in batch],
                             budget=min(budget, 12.0), workers=workers)
        for (ob, (tag, _)), r in zip(batch, res):
            ob.seconds += r['seconds']
            if r['verdict'] == 'unsat':
                _record(ob, r, ' (%s)' % tag[1:])
        pending = [(ob, st) for ob, st in pending if ob.verdict != 'unsat']
    retry = [ob for ob, _ in pending if ob.verdict != 'unsat']
    results = smt.solve_many([j[1] for j in jobs], budget=budget, workers=workers)
    for (ob, _, _), r in zip(jobs, results):
        ob.seconds += r['seconds']
        _record(ob, r, '')
    if retry:
        results = smt.solve_many([_full_job(ob) for ob in retry], budget=budget, workers=workers)
        for ob, r in zip(retry, results):
            ob.seconds += r['seconds']
            _record(ob, r, '')
    open_ = [ob for ob in obls if ob.kind not in ('cover', 'enumerated') and ob.verdict not in ('sat', 'unsat')]
    if open_:
        prove_split(open_, budget, workers=workers)
        open_ = [ob for ob in open_ if ob.verdict != 'unsat']
    if open_ and len(open_) <= 8 and os.environ.get('PYVC_INSTANTIATE'):
        refute_by_instantiation(open_, budget=min(budget, 10.0), workers=workers)
    return obls


BOUNDARY_LENGTHS = [0, 1, 125, 126, 127, 65535, 65536, 65537]


def refute_by_instantiation(obls, budget=10.0, lengths=None, workers=None):
    """For obligations both solvers left open: look for a counterexample among concrete
    boundary-length strings ('A' * L substituted for one string input at a time).  Each instance
    is an under-approximation, so `sat` is a genuine counter-model; nothing else is concluded."""
    lengths = lengths or BOUNDARY_LENGTHS
    jobs = []
    for ob in obls:
        asserts = list(ob.assumptions) + [z3.Not(ob.goal)]
        present = consts_in(asserts)
        svars = [t for t in ob.inputs if z3.is_const(t) and t.decl().name() in present
                 and t.sort() == z3.StringSort() and not t.decl().name().startswith('ret.')]
        for v in svars[:2]:
            for L in lengths:
                sub = [z3.substitute(a, (v, z3.StringVal('A' * L))) for a in asserts]
                gv = [smt_name(n) for n in input_names(ob) if n in consts_in(sub)]
                jobs.append((ob, v, L, (ob.full + '#inst', smt.to_smt2(sub, gv), bool(gv), True)))
    if not jobs:
        return
    results = smt.solve_many([j[3] for j in jobs], budget=budget, workers=workers)
    for (ob, v, L, _), r in zip(jobs, results):
        if r['verdict'] == 'sat' and ob.verdict != 'sat':
            ob.verdict = 'sat'
            ob.backend = (r['backend'] or '') + ' (boundary instance %s := 65*%d)' % (v.decl().name(), L)
            ob.outputs = r['outputs']
            ob.model = smt.parse_get_value(r.get('model_text', ''))
            ob.model[v.decl().name()] = 'A' * L


def _full_job(ob):
    asserts = list(ob.assumptions) + [z3.Not(ob.goal)]
    present = consts_in(asserts)
    gv = [smt_name(n) for n in input_names(ob) if n in present]
    return (ob.full, smt.to_smt2(asserts, gv), bool(gv), True)


def _record(ob, r, suffix):
    ob.verdict = r['verdict']
    ob.backend = (r['backend'] or 'none') + suffix if r['backend'] else None
    ob.outputs = r['outputs']
    if r['verdict'] in ('sat', 'sat?') and ob.kind != 'cover':
        ob.model = smt.parse_get_value(r.get('model_text', ''))


def status(ob):
    """'proved' | 'failed' | 'undecided' | 'covered' | 'dead'"""
    if ob.kind == 'cover':
        if ob.verdict == 'sat':
            return 'covered'
        if ob.verdict == 'unsat':
            return 'dead'
        return 'undecided'
    if ob.verdict == 'unsat':
        return 'proved'
    if ob.verdict == 'sat':
        return 'failed'
    if ob.verdict == 'sat?':
        return 'failed-unconfirmed'
    return 'undecided'
