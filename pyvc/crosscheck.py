"""CPython cross-check of contracts (bounded, never counted as proved).

For the listed functions the REAL function is called on randomly generated arguments /
receiver objects built from the sidecar class tables; inputs that satisfy the contract's
`requires` (+ `inv`) natively are kept, and every `ensures` / `raises` clause is then
evaluated natively on the real post-state.  Purpose:

 * an independent check of the VC generator: a clause the engine proved must hold on every
   real execution -- a disagreement is an engine (or encoding) error, or a real violation;
 * a counterexample finder with concrete inputs for obligations on which the solvers answer
   `unknown` or produce a non-replayable model.

Runs in-process (python3-vt, CPython 3.11) on the modules imported from PYVC_REPO.
Clauses that mention ghost state or spec functions without a native implementation are
reported as `not evaluable` and skipped, never failed.
"""
import copy
import importlib
import random
import sys
import traceback
from unittest import mock

import z3

from . import engine as E
from . import guard

TOKENS = [b'', b'a', b'\r\n', b'\r', b'\n', b':', b' ', b'0', b'5', b'12', b'1f', b'ff', b';', b'x=y', b'Content-Length',
          b'content-length', b'CONTENT-LENGTH', b'Transfer-Encoding', b'transfer-encoding', b'chunked', b'Connection',
          b'close', b'keep-alive', b'Host', b'host', b'GET', b'POST', b'HTTP/1.1', b'/', b'h.example', b'User-Agent',
          b'user-agent', b'\x00', b'\xff\xfe', b'\r\n\r\n', b'0\r\n\r\n']
INTS = [0, 1, 2, 3, 4, 5, 7, 10, 16, 100, 125, 126, 127, 128, 255, 256, 1024, 65535, 65536, -1]


class D(dict):
    def has(self, k):
        return k in self


def norm(v):
    if isinstance(v, memoryview):
        return v.tobytes()
    if isinstance(v, bytearray):
        return bytes(v)
    if isinstance(v, list):
        return [norm(x) for x in v]
    if isinstance(v, tuple):
        return tuple(norm(x) for x in v)
    if isinstance(v, dict):
        return D((norm(k), norm(x)) for k, x in v.items())
    return v


class View(object):
    """attribute reads normalise memoryviews / dicts; works on live objects and deep copies"""
    def __init__(self, o):
        object.__setattr__(self, '_o', o)

    def __getattr__(self, a):
        v = getattr(object.__getattribute__(self, '_o'), a)
        if isinstance(v, (int, bool, bytes, str, type(None), float)):
            return v
        if isinstance(v, (memoryview, bytearray, list, tuple, dict)):
            return norm(v)
        return View(v)


def _hdrs(K, m, n):
    return b''.join(K[j] + b': ' + m[K[j]] + b'\r\n' for j in range(max(0, n)))


def _lastlow(K, n, x, d):
    r = d
    for j in range(max(0, n)):
        if K[j].lower() == x:
            r = K[j]
    return r


def _is_ip(s):
    import ipaddress
    try:
        ipaddress.ip_address(s)
        return True
    except ValueError:
        return False


def _universe(vals):
    """finite stand-in universes for all_bytes / all_str / all_int clauses: every value of that
    type reachable from the inputs, their lower-case forms, and the token pool"""
    B, S, I = set(TOKENS), set(), set(INTS)

    def walk(v, d=0):
        if d > 5:
            return
        if isinstance(v, memoryview):
            v = v.tobytes()
        if isinstance(v, bytes):
            B.update([v, v.lower(), v.upper()])
        elif isinstance(v, str):
            S.update([v, v.lower()])
        elif isinstance(v, bool):
            pass
        elif isinstance(v, int):
            I.update([v, v + 1, v - 1])
        elif isinstance(v, dict):
            for k, x in v.items():
                walk(k, d + 1)
                walk(x, d + 1)
        elif isinstance(v, (list, tuple, set)):
            for x in v:
                walk(x, d + 1)
        elif hasattr(v, '__dict__') and not isinstance(v, mock.Mock):
            for x in vars(v).values():
                walk(x, d + 1)
    for v in vals:
        walk(v)
    S.update(b.decode('latin-1') for b in list(B)[:60])
    return {'__universe_bytes': sorted(B), '__universe_str': sorted(S), '__universe_int': sorted(I)}


def _int_ok(base):
    def f(s):
        try:
            int(s, base)
            return True
        except ValueError:
            return False
    return f


SPEC = {
    'len': len, 'flat': lambda xs: b''.join(bytes(x) for x in xs), 'lower': lambda s: s.lower(),
    'utf8enc': lambda s: s.encode('utf-8'), 'utf8dec': lambda b: b.decode('utf-8'), 'dec': lambda n: str(n),
    'join': lambda sep, xs: sep.join(xs), 'hdrs': _hdrs, 'lastlow': _lastlow,
    'anylow': lambda K, n, x: any(K[j].lower() == x for j in range(max(0, n))),
    'keys': lambda d: list(d.keys()), 'mapof': lambda d: D(d), 'store': lambda m, k, v: D(list(m.items()) + [(k, v)]),
    'contains': lambda xs, x: x in xs, 'int_dec': lambda s: int(s), 'int_hex': lambda s: int(s, 16),
    'int_dec_ok': _int_ok(10), 'int_hex_ok': _int_ok(16), 'empty': lambda x: len(x) == 0,
    'chr8': lambda n: bytes([n]), 'be16': lambda n: n.to_bytes(2, 'big'), 'be64': lambda n: n.to_bytes(8, 'big'),
    'all_bytes': lambda xs: all(isinstance(x, bytes) for x in xs), 'is_bytes': lambda s: isinstance(s, (bytes, bytearray)),
    'is_ascii': lambda s: all(c < 128 for c in s), 'is_ip_literal': _is_ip, 'wsplit': lambda s: s.split(),
    'splitall': lambda s, sep: s.split(sep),
}


def const_py(v):
    t = getattr(v, 't', None)
    if t is None:
        return None
    t = z3.simplify(t)
    if z3.is_string_value(t):
        s = t.as_string()
        out = E.const_str(t) if hasattr(E, 'const_str') else s
        return (out if out is not None else s).encode('latin-1') if getattr(v, 'kind', 'bytes') != 'str' else out
    if z3.is_int_value(t):
        return t.as_long()
    if z3.is_true(t) or z3.is_false(t):
        return z3.is_true(t)
    return None


class Gen(object):
    def __init__(self, reg, rnd):
        self.reg, self.rnd = reg, rnd

    def bytes_(self):
        r = self.rnd
        k = r.choice([0, 1, 1, 2, 2, 3, 4])
        parts = [r.choice(TOKENS) if r.random() < 0.85 else bytes(r.randrange(256) for _ in range(r.randrange(1, 6))) for _ in range(k)]
        return b''.join(parts)

    def val(self, t, depth=0):
        r = self.rnd
        if t == 'int' or (isinstance(t, tuple) and t[0] == 'num'):
            return r.choice(INTS) if r.random() < 0.8 else r.randrange(0, 3000)
        if t == 'bool':
            return r.random() < 0.5
        if t == 'bytes':
            return self.bytes_()
        if t == 'mv':
            return memoryview(self.bytes_())
        if t == 'str':
            return self.bytes_().decode('latin-1')
        if isinstance(t, tuple):
            k = t[0]
            if k == 'opt':
                return None if r.random() < 0.3 else self.val(t[1], depth)
            if k in ('list', 'seq'):
                return [self.val(t[1], depth + 1) for _ in range(r.choice([0, 1, 2, 3, 4]))]
            if k == 'tuple':
                return tuple(self.val(x, depth + 1) for x in t[1:])
            if k == 'dict':
                return dict((self.val(t[1], depth + 1), self.val(t[2], depth + 1)) for _ in range(r.choice([0, 1, 2, 3, 5])))
            if k == 'obj':
                return self.obj(t[1], depth + 1)
            if k == 'opaque':
                return mock.MagicMock(name=t[1])
        raise TypeError('no generator for type %r' % (t,))

    def obj(self, cls, depth=0):
        ent = self.reg.classes[cls]
        py = self.reg.pyclass(cls)
        o = object.__new__(py) if py is not None else mock.MagicMock(name=cls)
        for f, t in ent['fields'].items():
            try:
                object.__setattr__(o, f, self.val(t, depth))
            except AttributeError:
                pass
        return o


def show(v, reg, depth=0):
    """printable concrete value: objects built from the class tables are shown by their fields"""
    v = norm(v)
    if isinstance(v, (int, bool, bytes, str, type(None), float)):
        return v
    if isinstance(v, mock.Mock):
        return '<mock>'
    if isinstance(v, (list, tuple)):
        return [show(x, reg, depth + 1) for x in v][:8]
    if isinstance(v, dict):
        return dict((show(k, reg, depth + 1), show(x, reg, depth + 1)) for k, x in list(v.items())[:8])
    ent = reg.classes.get(type(v).__name__)
    if ent is not None and depth < 3:
        return dict((f, show(getattr(v, f, None), reg, depth + 1)) for f in ent['fields'] if not isinstance(getattr(v, f, None), mock.Mock))
    return repr(v)[:60]


def resolve(c, repo_mod_cache={}):
    """the real Python callable of a contract (module function, or unbound method + class)"""
    modname = c.file[:-3].replace('/', '.')
    mod = importlib.import_module(modname)
    obj = mod
    for part in c.qualname.split('.'):
        obj = getattr(obj, part)
    return obj


def crosscheck(reg, contracts, names, tier, seed, gens=None, trials=None):
    """-> one bounded-check record (same shape as the modules' bounded_checks entries)"""
    sys.path.insert(0, '/verif')
    from replay.clause import compile_clause
    rnd = random.Random(seed * 7919 + 13)
    gens = gens or {}
    trials = trials or (300 if tier == 'quick' else 3000)     # accepted inputs per function
    consts = {}
    from replay.specimpl import SPECFUNS
    consts.update(SPECFUNS)
    for k, sf in reg.specfuns.items():
        if getattr(sf, 'pyimpl', None) is not None:
            consts[k] = sf.pyimpl
    for k, v in reg.spec_consts.items():
        pv = const_py(v)
        if pv is not None:
            consts[k] = pv
    bad, stats, n_cases = [], {}, 0
    byname = dict((c.qualname, c) for c in contracts)
    for qn in names:
        c = byname.get(qn)
        if c is None or c.assumed:
            stats[qn] = {'error': 'no verified contract of that name in this module'}
            continue
        fn = resolve(c)
        st = stats[qn] = {'generated': 0, 'accepted': 0, 'normal_exits': 0, 'raised': {}, 'clauses_checked': {}, 'not_evaluable': {}}
        pre = [(nm, compile_clause(t)[0]) for nm, t in c.requires + c.inv]
        posts = [(nm, t) + compile_clause(t) for nm, t in c.ensures + c.inv]
        rposts = dict((exn, [(nm, t) + compile_clause(t) for nm, t in cl]) for exn, cl in c.raises.items())
        g = Gen(reg, rnd)
        for _ in range(trials * 25):
            if st['accepted'] >= trials:
                break
            st['generated'] += 1
            try:
                ghosts = {}
                if qn in gens:
                    got = gens[qn](g, rnd)
                    selfobj, args = got[0], got[1]
                    ghosts = got[2] if len(got) > 2 else {}
                else:
                    selfobj = g.obj(c.self_cls) if c.self_cls else None
                    args = dict((p, g.val(t)) for p, t in c.params.items())
            except Exception as e:      # noqa
                st['error'] = 'generator: %r' % (e,)
                break
            ns = dict(SPEC)
            ns.update(consts)
            ns.update(ghosts)
            ns.update(_universe([selfobj, args, ghosts]))
            ns.update(dict((p, norm(v)) for p, v in args.items()))
            if selfobj is not None:
                ns['self'] = View(selfobj)
            try:
                if not all(eval(code, dict(ns)) for _, code in pre):
                    continue
            except Exception:
                continue
            st['accepted'] += 1
            shown = {'args': repr(dict((p, show(v, reg)) for p, v in args.items()))[:900]}
            if selfobj is not None:
                shown['self'] = repr(show(selfobj, reg))[:900]
            olds = {}
            ok_old = True
            for group in [posts] + list(rposts.values()):
                for nm, t, code, oc in group:
                    try:
                        olds[(nm, t)] = [copy.deepcopy(norm(eval(o, dict(ns)))) for o in oc]
                    except Exception as e:  # noqa
                        olds[(nm, t)] = e
            exc, result = None, None
            try:
                with guard.time_limit(10):
                    result = fn(selfobj, **args) if selfobj is not None else fn(**args)
                if hasattr(result, '__await__'):
                    import asyncio
                    result = asyncio.new_event_loop().run_until_complete(result)
            except guard.NativeTimeout:
                bad.append(dict(shown, function=qn, what='%s does not return within 10 s on this input' % qn))
                continue
            except Exception as e:      # noqa
                exc = e
            n_cases += 1
            ns['result'] = norm(result)
            # parameters are evaluated in the post-state as the (possibly mutated) objects
            ns.update(dict((p, norm(v)) for p, v in args.items()))
            if exc is None:
                st['normal_exits'] += 1
                group = posts
            else:
                en = type(exc).__name__
                st['raised'][en] = st['raised'].get(en, 0) + 1
                group = None
                for exn, cl in rposts.items():
                    base = exn.split('.')[-1]
                    if any(k.__name__ == base for k in type(exc).__mro__):
                        group = cl if group is None or base == en else group
                if group is None:
                    bad.append(dict(shown, function=qn, what='raised %s, which the contract does not allow' % en,
                                    traceback=traceback.format_exception_only(type(exc), exc)[-1][:200]))
                    continue
            for nm, t, code, oc in group:
                o = olds[(nm, t)]
                if isinstance(o, Exception):
                    st['not_evaluable'][nm] = repr(o)[:120]
                    continue
                n2 = dict(ns)
                n2['__old'] = o
                try:
                    ok = bool(eval(code, n2))
                except NameError as e:
                    st['not_evaluable'][nm] = repr(e)[:120]
                    continue
                except Exception as e:  # noqa
                    st['not_evaluable'][nm] = repr(e)[:120]
                    continue
                st['clauses_checked'][nm] = st['clauses_checked'].get(nm, 0) + 1
                if not ok:
                    bad.append(dict(shown, function=qn, clause=nm, text=t[:300], result=repr(norm(result))[:300],
                                    what='clause %s of %s is false on a real execution' % (nm, qn)))
        if st['accepted'] == 0 and 'error' not in st:
            st['error'] = 'no generated input satisfied the preconditions (cross-check vacuous for this function)'
    return {'name': 'CPython cross-check of contract clauses on the real functions (random inputs from the class tables)',
            'bounded': True, 'bound': '%d accepted random inputs per function (at most %d generated), seed %d' % (trials, trials * 25, seed),
            'cases': n_cases, 'functions': stats, 'violations': bad[:3]}
