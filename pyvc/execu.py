"""Forking symbolic executor for the accepted Python subset (statements and
expressions of real /repo functions)."""
import ast
import importlib
import inspect

import z3

from .vals import *          # noqa: F401,F403
from .engine import *        # noqa: F401,F403
from .engine import (Unsupported, SpecError, SpecEnv, SpecEval, State, Frame, Registry, Contract,
                     LoopSpec, truthy, from_py, veq, as_seq, merge_vals, binop, compare, contains,
                     dict_has, dict_get, is_none, fresh_name, fresh_term, relpath_of_module,
                     SourceIndex, str_method_pure)

MAX_INLINE_DEPTH = 8


class Obligation(object):
    def __init__(self, name, assumptions, goal, meta=None):
        self.name = name
        self.assumptions = list(assumptions)
        self.goal = goal
        self.meta = meta or {}


class Exec(object):
    def __init__(self, reg, src=None, prop='C00'):
        self.reg = reg
        self.src = src or SourceIndex()
        self.spec = SpecEval(reg)
        self.prop = prop
        self.dropped = []       # (file, line, what) — logging statements dropped
        self.inlined = {}       # qualname -> hash
        self.used_contracts = set()
        self.bounded = []       # notes on bounded unrolling

    # ------------------------------------------------------------ utilities
    def default_unroll(self, n, fr):
        """a loop without a sidecar invariant: bounded unrolling (recorded, never counted as proved)"""
        return 2

    def val(self, v, st):
        return [('val', v, st)]

    def exc(self, cls, st, fields=None, msg=None):
        st.trace.append('!' + cls.__name__)
        return [('exc', VExc(cls, fields, msg), st)]

    def bind(self, outs, fn):
        res = []
        for k, v, st in outs:
            if k == 'val':
                res.extend(fn(v, st))
            else:
                res.append((k, v, st))
        return res

    def eval_list(self, nodes, st):
        outs = [('val', [], st)]
        for n in nodes:
            new = []
            for k, acc, s in outs:
                if k != 'val':
                    new.append((k, acc, s))
                    continue
                for k2, v2, s2 in self.eval(n, s):
                    if k2 == 'val':
                        new.append(('val', acc + [v2], s2))
                    else:
                        new.append((k2, v2, s2))
            outs = new
        return outs

    def branch(self, cond, st, then, orelse):
        """Fork on a z3 Bool."""
        cb = const_bool(cond)
        if cb is True:
            return then(st)
        if cb is False:
            return orelse(st)
        # syntactic check against the path condition: a branch whose condition (or its negation)
        # is already a conjunct of pc is decided
        pos = z3.simplify(cond)
        neg = z3.simplify(z3.Not(cond))
        simp = [z3.simplify(c) for c in st.pc[-40:]]      # kept alive: AST ids are reused after GC
        if any(pos.eq(c) for c in simp):
            return then(st)
        if any(neg.eq(c) for c in simp):
            return orelse(st)
        s1 = st.fork()
        s1.assume(cond)
        s1.trace.append('T')
        s2 = st
        s2.assume(z3.Not(cond))
        s2.trace.append('F')
        if getattr(self, 'prune', False):
            # contract asked for path pruning: quick subprocess feasibility check (unsat => dead path)
            from . import smt
            out = []
            for s, k in ((s1, then), (s2, orelse)):
                r = smt.solve_text(smt.to_smt2(s.pc), budget=3.0, tag='prune')
                self.prune_stats = getattr(self, 'prune_stats', 0) + 1
                if r['verdict'] == 'unsat':
                    continue
                out += k(s)
            return out
        return then(s1) + orelse(s2)

    def unsupported_path(self, st, why):
        """this path leaves the accepted subset: it must be infeasible (obligation of kind 'subset';
        if it is not discharged the run ends as STRUCTURE, never as a violation)"""
        self.subset_obls = getattr(self, 'subset_obls', [])
        self.subset_obls.append(('outside-subset: ' + why, list(st.pc), ''.join(st.trace)))
        return []

    def unopt(self, v, st, fn):
        """use an Optional value where a non-None one is required (None -> TypeError)"""
        if isinstance(v, VOpt):
            return self.branch(v.isnone, st, lambda s: self.exc(TypeError, s), lambda s: fn(v.val, s))
        if isinstance(v, VNone):
            return self.exc(TypeError, st)
        return fn(v, st)

    def unopt_all(self, vs, st, fn, acc=None):
        acc = acc or []
        if len(acc) == len(vs):
            return fn(acc, st)
        return self.unopt(vs[len(acc)], st, lambda x, s: self.unopt_all(vs, s, fn, acc + [x]))

    def fresh(self, t, prefix, st):
        """Fresh symbolic value of type descriptor t."""
        if t in ('int', 'bool', 'bytes', 'str', 'mv'):
            return wrap(fresh_term(t, prefix), t)
        if t == 'none':
            return NONE
        if isinstance(t, tuple):
            if t[0] == 'opt':
                return VOpt(z3.Bool(fresh_name(prefix + '?none')), self.fresh(t[1], prefix, st))
            if t[0] == 'list':
                return st.alloc(HList(t[1], z3.Const(fresh_name(prefix), z3.SeqSort(sort_of(t[1])))))
            if t[0] == 'seq':
                return VSeq(z3.Const(fresh_name(prefix), z3.SeqSort(sort_of(t[1]))), t[1])
            if t[0] == 'dict':
                return st.alloc(self.fresh_dict(t[1], t[2], prefix, st))
            if t[0] == 'tuple':
                return VTuple([self.fresh(x, '%s.%d' % (prefix, i), st) for i, x in enumerate(t[1:])])
            if t[0] == 'obj':
                return self.fresh_obj(t[1], prefix, st)
            if t[0] == 'opaque':
                return VOpaque(t[1], z3.Int(fresh_name(prefix)))
            if t[0] == 'py':
                return VPy(t[1])
        raise Unsupported('fresh value of type %r' % (t,))

    def fresh_dict(self, kt, vt, prefix, st=None):
        ks = z3.Const(fresh_name(prefix + '.keys'), z3.SeqSort(sort_of(kt)))
        comps = vt[1:] if isinstance(vt, tuple) and vt[0] == 'tuple' else [vt]
        maps = [z3.Const(fresh_name('%s.map%d' % (prefix, i)), z3.ArraySort(sort_of(kt), sort_of(c)))
                for i, c in enumerate(comps)]
        return HDict(kt, vt, ks, maps)

    def fresh_obj(self, cls, prefix, st, depth=0):
        ent = self.reg.classes.get(cls)
        if ent is None:
            raise Unsupported('class %s has no field table in the sidecar' % cls)
        h = HObj(cls, {}, self.reg.pyclass(cls))
        ref = st.alloc(h)
        for f, t in list(ent['fields'].items()) + list(ent.get('ghost', {}).items()):
            h.fields[f] = self.fresh(t, '%s.%s' % (prefix, f), st)
        return ref

    # ------------------------------------------------------------ statements
    def exec_block(self, stmts, st, fr):
        outs = [('next', None, st)]
        for s in stmts:
            if len(outs) > 3000:
                raise Unsupported('path explosion (> 3000 live paths) in %s' % fr.funcname)
            new = []
            for k, v, s1 in outs:
                if k != 'next':
                    new.append((k, v, s1))
                else:
                    new.extend(self.exec_stmt(s, s1, fr))
            outs = new
            if not outs:
                break
        return outs

    def exec_stmt(self, n, st, fr):
        st.frames and None
        self.cur = fr
        m = getattr(self, 'st_' + type(n).__name__, None)
        if m is None:
            raise Unsupported('statement %s at %s:%d' % (type(n).__name__, fr.relpath, n.lineno))
        return m(n, st, fr)

    def _is_log_call(self, n):
        if isinstance(n, ast.Call) and isinstance(n.func, ast.Attribute) and isinstance(n.func.value, ast.Name):
            if n.func.value.id in ('logger', 'logging'):
                return True
        return False

    def st_Expr(self, n, st, fr):
        if isinstance(n.value, ast.Constant):
            return [('next', None, st)]     # docstring
        if self._is_log_call(n.value):
            self.dropped.append((fr.relpath, n.lineno, 'log call'))
            return [('next', None, st)]
        return [(('next', None, s) if k == 'val' else (k, v, s)) for k, v, s in self.eval(n.value, st, fr)]

    def st_Pass(self, n, st, fr):
        return [('next', None, st)]

    def st_Delete(self, n, st, fr):
        outs = [('next', None, st)]
        for tgt in n.targets:
            if isinstance(tgt, ast.Name):
                st.env.pop(tgt.id, None)
            elif isinstance(tgt, ast.Subscript):
                new = []
                for k, v, s in outs:
                    if k != 'next':
                        new.append((k, v, s))
                        continue
                    new.extend(self.del_subscript(tgt, s, fr))
                outs = new
            else:
                raise Unsupported('del target')
        return outs

    def del_subscript(self, tgt, st, fr):
        def go(vals, s):
            o, k = vals
            if isinstance(o, VOpt):
                return self.unopt(o, s, lambda o2, s2: go([o2, k], s2))
            h = s.heap[o.ref] if isinstance(o, VRef) else None
            if isinstance(h, HDict):
                has = dict_has(h, k)

                def present(s2):
                    h2 = s2.heap[o.ref]
                    before = h2.keys
                    h2.keys = self.seq_remove(h2.keys, term_of(k), s2)
                    # instance of the membership definition: exactly k is no longer a member
                    s2.assume(memof(h2.keys) == z3.Store(memof(before), term_of(k), z3.BoolVal(False)))
                    return [('next', None, s2)]
                return self.branch(has, s, present, lambda s2: self.exc(KeyError, s2))
            raise Unsupported('del on %r' % (o,))
        return self.bind(self.eval_list([tgt.value, tgt.slice], st), go)

    def seq_remove(self, keys, k, st):
        """keys without element k (keys are distinct; k is present) — introduces a fresh
        sequence constrained by its defining property."""
        pre = z3.Const(fresh_name('rm.pre'), keys.sort())
        post = z3.Const(fresh_name('rm.post'), keys.sort())
        st.assume(keys == z3.Concat(pre, z3.Unit(k), post))
        st.assume(z3.Not(z3.Select(memof(pre), k)))
        st.assume(z3.Not(z3.Select(memof(post), k)))
        return z3.Concat(pre, post)

    def st_Return(self, n, st, fr):
        if n.value is None:
            return [('ret', NONE, st)]
        return [(('ret', v, s) if k == 'val' else (k, v, s)) for k, v, s in self.eval(n.value, st, fr)]

    def st_Break(self, n, st, fr):
        return [('brk', None, st)]

    def st_Continue(self, n, st, fr):
        return [('cnt', None, st)]

    def st_Assert(self, n, st, fr):
        def go(v, s):
            return self.branch(truthy(v, s), s, lambda s2: [('next', None, s2)],
                               lambda s2: self.exc(AssertionError, s2))
        return self.bind(self.eval(n.test, st, fr), go)

    def st_Raise(self, n, st, fr):
        if n.exc is None:
            cur = st.env.get('$exc')
            if cur is None:
                raise Unsupported('bare raise outside except')
            return [('exc', cur, st)]
        if isinstance(n.exc, ast.Call):
            fn = n.exc.func
            outs = self.eval(fn, st, fr)

            def go(v, s):
                if isinstance(v, VPy) and isinstance(v.obj, type) and issubclass(v.obj, BaseException):
                    # The message text itself is not modelled, but the calls inside the constructor
                    # arguments are executed for their exceptions (`'...%s' % text_(raw)` may raise
                    # instead of the intended exception); string formatting is looked through.
                    calls = []
                    for a in list(n.exc.args) + [k.value for k in n.exc.keywords]:
                        self.effect_calls(a, calls)
                    outs2 = [('val', None, s)]
                    for c in calls:
                        nxt = []
                        for k2, v2, s2 in outs2:
                            if k2 != 'val':
                                nxt.append((k2, v2, s2))
                                continue
                            try:
                                s3 = s2.fork()
                                nxt.extend(self.eval(c, s2, fr))
                            except Unsupported as e:
                                self.dropped.append((fr.relpath, n.lineno, 'call in exception message not modelled: %s' % str(e)[:60]))
                                nxt.append(('val', None, s3))
                        outs2 = nxt
                    res = []
                    for k2, v2, s2 in outs2:
                        res.extend(self.exc(v.obj, s2) if k2 == 'val' else [(k2, v2, s2)])
                    return res
                raise Unsupported('raise of %r' % (v,))
            return self.bind(outs, go)

        def go2(v, s):
            if isinstance(v, VExc):
                return [('exc', v, s)]
            if isinstance(v, VPy) and isinstance(v.obj, type):
                return self.exc(v.obj, s)
            raise Unsupported('raise of %r' % (v,))
        return self.bind(self.eval(n.exc, st, fr), go2)

    def effect_calls(self, e, acc):
        """the calls inside an exception-message expression that can have effects: formatting
        ('fmt' % x, 'fmt'.format(..), str(), repr()) is looked through, everything else is kept whole"""
        if isinstance(e, ast.BinOp) and isinstance(e.op, (ast.Mod, ast.Add)):
            self.effect_calls(e.left, acc)
            self.effect_calls(e.right, acc)
        elif isinstance(e, (ast.Tuple, ast.List)):
            for x in e.elts:
                self.effect_calls(x, acc)
        elif isinstance(e, ast.JoinedStr):
            for x in e.values:
                self.effect_calls(x, acc)
        elif isinstance(e, ast.FormattedValue):
            self.effect_calls(e.value, acc)
        elif isinstance(e, ast.Call):
            f = e.func
            if (isinstance(f, ast.Attribute) and f.attr == 'format' and isinstance(f.value, ast.Constant)) or \
                    (isinstance(f, ast.Name) and f.id in ('str', 'repr')):
                for x in list(e.args) + [k.value for k in e.keywords]:
                    self.effect_calls(x, acc)
            else:
                acc.append(e)

    def st_If(self, n, st, fr):
        def go(v, s):
            return self.branch(truthy(v, s), s,
                               lambda s2: self.exec_block(n.body, s2, fr),
                               lambda s2: self.exec_block(n.orelse, s2, fr))
        return self.bind_stmt(self.eval(n.test, st, fr), go)

    def bind_stmt(self, outs, fn):
        res = []
        for k, v, s in outs:
            if k == 'val':
                res.extend(fn(v, s))
            else:
                res.append((k, v, s))
        return res

    def st_AnnAssign(self, n, st, fr):
        if n.value is None:
            return [('next', None, st)]
        from .calls import ann_to_type
        t = ann_to_type(n.annotation)
        if isinstance(n.value, ast.List) and not n.value.elts and t and t[0] == 'list':
            v = st.alloc(HList(t[1], z3.Empty(z3.SeqSort(sort_of(t[1])))))
            st.heap[v.ref].items = []
            return self.assign(n.target, v, st, fr)
        if isinstance(n.value, ast.Dict) and not n.value.keys and t and t[0] == 'dict':
            try:
                v = st.alloc(self.fresh_dict(t[1], t[2], 'newdict'))
                st.heap[v.ref].set_empty()
                return self.assign(n.target, v, st, fr)
            except (TypeError, Unsupported):
                pass
        return self.bind_stmt(self.eval(n.value, st, fr), lambda v, s: self.assign(n.target, v, s, fr))

    def st_Assign(self, n, st, fr):
        def go(v, s):
            outs = [('next', None, s)]
            for tgt in n.targets:
                new = []
                for k, x, s1 in outs:
                    if k != 'next':
                        new.append((k, x, s1))
                    else:
                        new.extend(self.assign(tgt, v, s1, fr))
                outs = new
            return outs
        return self.bind_stmt(self.eval(n.value, st, fr), go)

    def st_AugAssign(self, n, st, fr):
        load = ast.copy_location(self._as_load(n.target), n.target)
        expr = ast.copy_location(ast.BinOp(left=load, op=n.op, right=n.value), n)
        # list += list is in-place extend
        return self.bind_stmt(self.eval(expr, st, fr), lambda v, s: self.assign(n.target, v, s, fr))

    def _as_load(self, t):
        if isinstance(t, ast.Name):
            return ast.Name(id=t.id, ctx=ast.Load())
        if isinstance(t, ast.Attribute):
            return ast.Attribute(value=t.value, attr=t.attr, ctx=ast.Load())
        if isinstance(t, ast.Subscript):
            return ast.Subscript(value=t.value, slice=t.slice, ctx=ast.Load())
        raise Unsupported('augassign target')

    def assign(self, tgt, v, st, fr):
        if isinstance(tgt, ast.Name):
            if isinstance(v, VSeq):      # list value bound to a variable becomes a heap list
                v = st.alloc(HList(v.etype, v.t))
            st.env[tgt.id] = v
            return [('next', None, st)]
        if isinstance(tgt, ast.Attribute):
            def go(o, s):
                return self.setattr(o, tgt.attr, v, s)
            return self.bind_stmt(self.eval(tgt.value, st, fr), go)
        if isinstance(tgt, (ast.Tuple, ast.List)) and isinstance(v, VRef) and isinstance(st.heap[v.ref], HList) \
                and st.heap[v.ref].items is None and st.heap[v.ref].seq is not None:
            # unpacking a list of symbolic length: ValueError unless it has exactly that many items
            h = st.heap[v.ref]
            n_ = len(tgt.elts)

            def ok(s):
                tup = VTuple([wrap(s.heap[v.ref].seq[k], h.etype) for k in range(n_)])
                return self.assign(tgt, tup, s, fr)
            return self.branch(z3.Length(h.seq) == n_, st, ok, lambda s: self.exc(ValueError, s))
        if isinstance(tgt, (ast.Tuple, ast.List)):
            items = self.unpack(v, len(tgt.elts), st)
            if items is None:
                raise Unsupported('unpacking %r' % (v,))
            outs = [('next', None, st)]
            for t, it in zip(tgt.elts, items):
                new = []
                for k, x, s1 in outs:
                    if k != 'next':
                        new.append((k, x, s1))
                    else:
                        new.extend(self.assign(t, it, s1, fr))
                outs = new
            return outs
        if isinstance(tgt, ast.Subscript):
            def go(vals, s):
                o, i = vals
                return self.setitem(o, i, v, s)
            return self.bind_stmt(self.eval_list([tgt.value, tgt.slice], st), go)
        raise Unsupported('assignment target %s' % type(tgt).__name__)

    def unpack(self, v, n, st):
        if isinstance(v, VTuple) and len(v.items) == n:
            return v.items
        if isinstance(v, VRef) and isinstance(st.heap[v.ref], HList) and st.heap[v.ref].items is not None \
                and len(st.heap[v.ref].items) == n:
            return st.heap[v.ref].items
        return None

    def setattr(self, o, attr, v, st):
        if isinstance(o, VOpt):
            def some(s):
                return self.setattr(o.val, attr, v, s)
            return self.branch(o.isnone, st, lambda s: self.exc(AttributeError, s), some)
        if isinstance(o, VRef) and isinstance(st.heap[o.ref], HObj):
            if isinstance(v, VSeq):
                v = st.alloc(HList(v.etype, v.t))
            st.heap[o.ref].fields[attr] = v
            return [('next', None, st)]
        raise Unsupported('attribute store on %r' % (o,))

    def setitem(self, o, i, v, st):
        if isinstance(o, VOpt):
            return self.branch(o.isnone, st, lambda s: self.exc(TypeError, s),
                               lambda s: self.setitem(o.val, i, v, s))
        if isinstance(o, VRef) and isinstance(st.heap[o.ref], HBytes):
            h = st.heap[o.ref]
            n = z3.Length(h.t)
            idx = norm_index(i.t, n)

            def okb(s):
                def inrange(s2):
                    h2 = s2.heap[o.ref]
                    h2.t = z3.Concat(z3.SubString(h2.t, 0, idx), z3.StrFromCode(v.t),
                                     z3.SubString(h2.t, idx + 1, n - idx - 1))
                    return [('next', None, s2)]
                return self.branch(z3.And(v.t >= 0, v.t <= 255), s, inrange, lambda s2: self.exc(ValueError, s2))
            return self.branch(z3.And(idx >= 0, idx < n), st, okb, lambda s: self.exc(IndexError, s))
        if isinstance(o, VRef):
            h = st.heap[o.ref]
            if isinstance(h, HList):
                n = z3.Length(h.seq)
                idx = norm_index(i.t, n)

                def ok(s):
                    h2 = s.heap[o.ref]
                    h2.seq = z3.Concat(z3.SubSeq(h2.seq, 0, idx), z3.Unit(term_of(v)),
                                       z3.SubSeq(h2.seq, idx + 1, n - idx - 1))
                    return [('next', None, s)]
                return self.branch(z3.And(idx >= 0, idx < n), st, ok, lambda s: self.exc(IndexError, s))
            if isinstance(h, HDict) and h.ktype is None:
                # first store into an untyped {} literal fixes the key/value types
                h.ktype, h.vtype = type_of(i), type_of(v)
                h.set_empty()
                comps0 = h.vtype[1:] if isinstance(h.vtype, tuple) and h.vtype[0] == 'tuple' else [h.vtype]
                h.maps = [z3.K(sort_of(h.ktype), zero_of(c)) for c in comps0]
            if isinstance(h, HDict):
                kt = term_of(i)
                has = dict_has(h, i)
                comps = v.items if (isinstance(h.vtype, tuple) and h.vtype[0] == 'tuple') else [v]

                def store(s, add):
                    h2 = s.heap[o.ref]
                    h2.maps = [z3.Store(m, kt, term_of(c)) for m, c in zip(h2.maps, comps)]
                    if add:
                        h2.keys = z3.Concat(h2.keys, z3.Unit(kt))
                    return [('next', None, s)]
                return self.branch(has, st, lambda s: store(s, False), lambda s: store(s, True))
        raise Unsupported('item store on %r' % (o,))

    # ---- try / with
    def st_Try(self, n, st, fr):
        outs = self.exec_block(n.body, st, fr)
        res = []
        for k, v, s in outs:
            if k == 'exc':
                handled = False
                for h in n.handlers:
                    m = self.handler_matches(h, v, s, fr)
                    if m:
                        handled = True
                        s.trace.append('H%d' % n.handlers.index(h))
                        saved = s.env.get('$exc')
                        s.env['$exc'] = v
                        if h.name:
                            s.env[h.name] = v
                        hres = self.exec_block(h.body, s, fr)
                        for k2, v2, s2 in hres:
                            if saved is None:
                                s2.env.pop('$exc', None)
                            else:
                                s2.env['$exc'] = saved
                            res.append((k2, v2, s2))
                        break
                if not handled:
                    res.append((k, v, s))
            elif k == 'next' and n.orelse:
                res.extend(self.exec_block(n.orelse, s, fr))
            else:
                res.append((k, v, s))
        if n.finalbody:
            final = []
            for k, v, s in res:
                for k2, v2, s2 in self.exec_block(n.finalbody, s, fr):
                    if k2 == 'next':
                        final.append((k, v, s2))
                    else:
                        final.append((k2, v2, s2))   # finally overrides
            res = final
        return res

    def handler_matches(self, h, exc, st, fr):
        if h.type is None:
            return True
        outs = self.eval(h.type, st.fork(), fr)
        k, v, _ = outs[0]
        classes = []
        if isinstance(v, VPy) and isinstance(v.obj, type):
            classes = [v.obj]
        elif isinstance(v, VTuple):
            classes = [x.obj for x in v.items]
        elif isinstance(v, VPy) and isinstance(v.obj, tuple):
            classes = list(v.obj)
        else:
            raise Unsupported('except clause type %r' % (v,))
        return any(issubclass(exc.cls, c) for c in classes)

    def st_With(self, n, st, fr):
        # accepted context managers: locks (self.lock) and contextlib.suppress(...)
        item = n.items[0]
        if len(n.items) != 1:
            raise Unsupported('with: multiple items')
        ce = item.context_expr
        txt = ast.unparse(ce)
        if txt.endswith('.lock') or txt == 'self.lock':
            return self.exec_block(n.body, st, fr)
        if isinstance(ce, ast.Call) and isinstance(ce.func, ast.Name) and ce.func.id == 'open' and 'open' in self.reg.externs:
            # with open(...) as f: the file object comes from the extern model; __exit__ closes it
            def body(v, s):
                outs = self.assign(item.optional_vars, v, s, fr) if item.optional_vars is not None else [('next', None, s)]
                res = []
                for k, x, s1 in outs:
                    res.extend(self.exec_block(n.body, s1, fr) if k == 'next' else [(k, x, s1)])
                return res
            return self.bind_stmt(self.eval(ce, st, fr), body)
        if txt.startswith('contextlib.suppress(') or txt.startswith('suppress('):
            classes = []
            for a in ce.args:
                k, v, _ = self.eval(a, st.fork(), fr)[0]
                classes.append(v.obj)
            res = []
            for k, v, s in self.exec_block(n.body, st, fr):
                if k == 'exc' and any(issubclass(v.cls, c) for c in classes):
                    res.append(('next', None, s))
                else:
                    res.append((k, v, s))
            return res
        raise Unsupported('with %s at %s:%d' % (txt, fr.relpath, n.lineno))

    # ---- loops
    def st_While(self, n, st, fr):
        return self.loop(n, st, fr)

    def st_For(self, n, st, fr):
        return self.loop(n, st, fr)

    st_AsyncFor = st_For

    def loop(self, n, st, fr):
        from .loops import run_loop
        return run_loop(self, n, st, fr)

    # ------------------------------------------------------------ expressions
    def eval(self, n, st, fr=None):
        fr = fr or self.cur
        m = getattr(self, 'ex_' + type(n).__name__, None)
        if m is None:
            raise Unsupported('expression %s at %s:%d' % (type(n).__name__, fr.relpath, getattr(n, 'lineno', 0)))
        return m(n, st, fr)

    def ex_Constant(self, n, st, fr):
        return self.val(from_py(n.value), st)

    def ex_Await(self, n, st, fr):
        return self.eval(n.value, st, fr)      # A-ATOM

    def ex_JoinedStr(self, n, st, fr):
        # f-strings occur only in messages; value is an unconstrained str
        return self.val(VStr(z3.String(fresh_name('fstr')), 'str'), st)

    def ex_Name(self, n, st, fr):
        if n.id in st.env:
            return self.val(st.env[n.id], st)
        g = fr.module.__dict__
        if n.id in g:
            return self.val(from_py(g[n.id]), st)
        if hasattr(builtins, n.id):
            return self.val(VPy(getattr(builtins, n.id)), st)
        self.name_errors = getattr(self, 'name_errors', []) + ['%s at %s:%d' % (n.id, fr.relpath, n.lineno)]
        return self.exc(NameError, st)

    def ex_Tuple(self, n, st, fr):
        if any(isinstance(e, ast.Starred) for e in n.elts):
            # (*t, a, b): accepted when every starred operand evaluates to a tuple of known length
            def go(vs, s):
                out = []
                for e, v in zip(n.elts, vs):
                    if isinstance(e, ast.Starred):
                        if not isinstance(v, VTuple):
                            raise Unsupported('starred operand that is not a fixed-length tuple at %s:%d' % (fr.relpath, n.lineno))
                        out.extend(v.items)
                    else:
                        out.append(v)
                return self.val(VTuple(out), s)
            return self.bind(self.eval_list([e.value if isinstance(e, ast.Starred) else e for e in n.elts], st), go)
        return self.bind(self.eval_list(n.elts, st), lambda vs, s: self.val(VTuple(vs), s))

    def ex_List(self, n, st, fr):
        def go(vs, s):
            if not vs:
                return self.val(s.alloc(HList(self.guess_elem_type(n, fr), None)), s)
            if not all(isinstance(x, (VInt, VBool, VStr, VOpaque)) for x in vs):
                # list of tuples / objects: concrete-length view only
                lst = s.alloc(HList(None, None))
                s.heap[lst.ref].items = list(vs)
                return self.val(lst, s)
            et = type_of(vs[0])
            t = z3.Unit(term_of(vs[0]))
            for x in vs[1:]:
                t = z3.Concat(t, z3.Unit(term_of(x)))
            lst = s.alloc(HList(et, t))
            s.heap[lst.ref].items = list(vs)
            return self.val(lst, s)
        return self.bind(self.eval_list(n.elts, st), go)

    def guess_elem_type(self, n, fr):
        return None    # resolved on first append (HList.seq None = empty, untyped)

    def ex_Dict(self, n, st, fr):
        if not n.keys:
            return self.val(st.alloc(HDict(None, None, None, [])), st)

        def go(vs, s):
            ks = vs[:len(n.keys)]
            xs = vs[len(n.keys):]
            kt, vt = type_of(ks[0]), type_of(xs[0])
            h = HDict(kt, vt, z3.Empty(z3.SeqSort(sort_of(kt))), [])
            comps = vt[1:] if isinstance(vt, tuple) and vt[0] == 'tuple' else [vt]
            h.maps = [z3.K(sort_of(kt), zero_of(c)) for c in comps]
            r = s.alloc(h)
            outs = [('next', None, s)]
            for k, x in zip(ks, xs):
                new = []
                for kk, vv, s1 in outs:
                    new.extend(self.setitem(r, k, x, s1) if kk == 'next' else [(kk, vv, s1)])
                outs = new
            return [(('val', r, s1) if kk == 'next' else (kk, vv, s1)) for kk, vv, s1 in outs]
        if any(k is None for k in n.keys):
            raise Unsupported('dict unpacking')

        def go_safe(vs, s):
            try:
                s0 = s.fork()
                return go(vs, s)
            except (TypeError, Unsupported):
                # heterogeneous literal (payload dicts): an opaque value, only ever handed to contracts
                return self.val(VOpaque('dictliteral', z3.Int(fresh_name('dictlit'))), s0)
        return self.bind(self.eval_list(list(n.keys) + list(n.values), st), go_safe)

    def ex_UnaryOp(self, n, st, fr):
        def go(v, s):
            if isinstance(n.op, ast.Not):
                return self.val(VBool(z3.Not(truthy(v, s))), s)
            if isinstance(n.op, ast.USub) and isinstance(v, VInt):
                return self.val(VInt(-v.t), s)
            raise Unsupported('unary %s' % type(n.op).__name__)
        return self.bind(self.eval(n.operand, st, fr), go)

    def ex_BoolOp(self, n, st, fr):
        is_and = isinstance(n.op, ast.And)

        def step(i, st):
            if i == len(n.values) - 1:
                return self.eval(n.values[i], st, fr)

            def go(v, s):
                c = truthy(v, s)
                if is_and:
                    return self.branch(c, s, lambda s2: step(i + 1, s2), lambda s2: self.val(v, s2))
                return self.branch(c, s, lambda s2: self.val(v, s2), lambda s2: step(i + 1, s2))
            return self.bind(self.eval(n.values[i], st, fr), go)
        return step(0, st)

    def ex_IfExp(self, n, st, fr):
        def has_call(x):
            return any(isinstance(y, (ast.Call, ast.Await)) for y in ast.walk(x))

        def go(v, s):
            c = truthy(v, s)
            if const_bool(c) is None and not has_call(n.body) and not has_call(n.orelse):
                # pure branches: merge into an If-term instead of forking the path
                try:
                    ra = self.eval(n.body, s.fork(), fr)
                    rb = self.eval(n.orelse, s.fork(), fr)
                    if len(ra) == 1 and len(rb) == 1 and ra[0][0] == 'val' and rb[0][0] == 'val' \
                            and len(ra[0][2].pc) == len(s.pc) and len(rb[0][2].pc) == len(s.pc) \
                            and len(ra[0][2].obls) == len(s.obls) and len(rb[0][2].obls) == len(s.obls):
                        return self.val(merge_vals(c, ra[0][1], rb[0][1], s), s)
                except Unsupported:
                    pass
            return self.branch(c, s, lambda s2: self.eval(n.body, s2, fr),
                               lambda s2: self.eval(n.orelse, s2, fr))
        return self.bind(self.eval(n.test, st, fr), go)

    def ex_BinOp(self, n, st, fr):
        def go(vs, s):
            a, b = vs
            return self.binop(n.op, a, b, s, n)
        return self.bind(self.eval_list([n.left, n.right], st), go)

    def binop(self, op, a, b, s, n=None):
        # Optional operands: None raises TypeError
        for x in (a, b):
            if isinstance(x, VOpt):
                other = (lambda y: y.val if y is x else y)
                return self.branch(x.isnone, s, lambda s2: self.exc(TypeError, s2),
                                   lambda s2: self.binop(op, other(a), other(b), s2, n))
            if isinstance(x, VNone):
                return self.exc(TypeError, s)
        if isinstance(op, ast.Mod) and isinstance(a, VStr):
            # %-formatting.  Exact for a literal format with only %s / %d directives and matching
            # arguments; otherwise an unconstrained string.
            fmt = const_str(a.t)
            argv = b.items if isinstance(b, VTuple) else [b]
            if fmt is not None and '%%' not in fmt:
                import re as _re
                pieces = _re.split(r'(%s|%d)', fmt)
                dirs = [p for p in pieces if p in ('%s', '%d')]
                if len(dirs) == len(argv) and '%' not in ''.join(p for p in pieces if p not in ('%s', '%d')):
                    out = []
                    ok = True
                    k = 0
                    for p in pieces:
                        if p == '%s' and isinstance(argv[k], VStr) and (argv[k].kind == 'str') == (a.kind == 'str'):
                            out.append(argv[k].t)
                            k += 1
                        elif p in ('%d', '%s') and isinstance(argv[k], VInt):
                            from .calls import int_to_dec
                            out.append(int_to_dec(self, argv[k].t))
                            k += 1
                        elif p in ('%s', '%d'):
                            ok = False
                            break
                        elif p:
                            out.append(z3.StringVal(p))
                    if ok:
                        t = out[0] if len(out) == 1 else (z3.Concat(*out) if out else z3.StringVal(''))
                        return self.val(VStr(t, a.kind), s)
            return self.val(VStr(z3.String(fresh_name('fmt')), a.kind), s)
        if isinstance(op, (ast.FloorDiv, ast.Mod)) and isinstance(b, VInt):
            return self.branch(b.t == 0, s, lambda s2: self.exc(ZeroDivisionError, s2),
                               lambda s2: self.val(binop(op, a, b, s2), s2))
        if isinstance(op, (ast.BitAnd, ast.BitOr, ast.BitXor)) and isinstance(a, VInt) and isinstance(b, VInt):
            from .engine import BITWIDTH
            if const_int(a.t) is None or const_int(b.t) is None:
                lim = 2 ** BITWIDTH[0]
                s.obls.append(('bitop-range@%d' % getattr(n, 'lineno', 0), list(s.pc),
                               z3.And(a.t >= 0, a.t < lim, b.t >= 0, b.t < lim),
                               {'kind': 'bitop-range', 'note': 'Int<->BV encoding is exact only within the width'}))
        if isinstance(op, ast.Add) and isinstance(a, VRef) and isinstance(s.heap[a.ref], HList):
            r = binop(op, a, b, s)
            return self.val(s.alloc(HList(r.etype, r.t)), s)
        return self.val(binop(op, a, b, s), s)

    def ex_Compare(self, n, st, fr):
        def go(vs, s):
            left = vs[0]
            conj = []
            for op, right in zip(n.ops, vs[1:]):
                conj.append(self.compare(op, left, right, s))
                left = right
            return self.val(VBool(z3.And(conj) if len(conj) > 1 else conj[0]), s)
        return self.bind(self.eval_list([n.left] + list(n.comparators), st), go)

    def compare(self, op, a, b, s):
        if isinstance(op, (ast.In, ast.NotIn)) and isinstance(b, VRef) and isinstance(s.heap[b.ref], HDict) \
                and s.heap[b.ref].ktype is None:
            r = z3.BoolVal(False)
            return r if isinstance(op, ast.In) else z3.Not(r)
        if isinstance(op, (ast.In, ast.NotIn)) and isinstance(b, VRef) and isinstance(s.heap[b.ref], HList) \
                and s.heap[b.ref].seq is None:
            r = z3.BoolVal(False)
            return r if isinstance(op, ast.In) else z3.Not(r)
        return compare(op, a, b, s)

    def ex_Attribute(self, n, st, fr):
        return self.bind(self.eval(n.value, st, fr), lambda o, s: self.getattr(o, n.attr, s, fr))

    def getattr(self, o, attr, st, fr):
        if isinstance(o, VOpt):
            return self.branch(o.isnone, st, lambda s: self.exc(AttributeError, s),
                               lambda s: self.getattr(o.val, attr, s, fr))
        if isinstance(o, VNone):
            return self.exc(AttributeError, st)
        if isinstance(o, VRef):
            h = st.heap[o.ref]
            if isinstance(h, HObj):
                if attr in h.fields:
                    return self.val(h.fields[attr], st)
                if attr == '__class__' and h.pycls is not None:
                    return self.val(VPy(h.pycls), st)
                # property or method on the real class?
                pc = h.pycls
                if pc is not None:
                    cattr = inspect.getattr_static(pc, attr, None)
                    if isinstance(cattr, property):
                        return self.call_function(cattr.fget, [o], {}, st, fr, what='%s.%s' % (h.cls, attr),
                                                  owner=self.owner_of(pc, attr))
                    if cattr is not None:
                        return self.val(VPy(('boundmethod', o, attr)), st)
                if '%s.%s' % (h.cls, attr) in self.reg.contracts:
                    return self.val(VPy(('boundmethod', o, attr)), st)
                raise Unsupported('object %s has no field %s (add it to the sidecar field table)' % (h.cls, attr))
            return self.val(VPy(('contmethod', o, attr)), st)
        if isinstance(o, VPy):
            obj = o.obj
            if isinstance(obj, tuple) and obj and obj[0] == 'boundmethod':
                raise Unsupported('attribute of bound method')
            try:
                return self.val(from_py(getattr(obj, attr)), st)
            except AttributeError:
                return self.exc(AttributeError, st)
        if isinstance(o, VExc):
            if attr in o.fields:
                return self.val(o.fields[attr], st)
            if attr == 'errno':
                o.fields[attr] = VOpt(z3.Bool(fresh_name('errno?none')), VInt(z3.Int(fresh_name('errno'))))
                return self.val(o.fields[attr], st)
            if attr == 'reason':
                o.fields[attr] = VStr(z3.String(fresh_name('reason')), 'str')
                return self.val(o.fields[attr], st)
        if isinstance(o, VOpaque):
            nm = '%s_attr_%s' % (o.cls, attr)
            if nm in self.reg.specfuns:
                sf = self.reg.specfuns[nm]
                return self.val(wrap(sf.apply(o.ident), sf.restype), st)
            return self.val(VPy(('opaquemethod', o, attr)), st)
        if isinstance(o, (VStr, VInt, VTuple, VSeq)):
            return self.val(VPy(('primmethod', o, attr)), st)
        raise Unsupported('attribute .%s of %r at %s' % (attr, o, fr.relpath))

    def owner_of(self, pycls, attr):
        for k in pycls.__mro__:
            if attr in k.__dict__:
                return k
        return pycls

    def ex_Subscript(self, n, st, fr):
        if isinstance(n.slice, ast.Slice):
            parts = [n.value] + [x for x in (n.slice.lower, n.slice.upper) if x is not None]
            if n.slice.step is not None:
                raise Unsupported('slice step')

            def go(vs, s):
                o = vs[0]
                k = 1
                lo = hi = None
                if n.slice.lower is not None:
                    lo = vs[k]
                    k += 1
                if n.slice.upper is not None:
                    hi = vs[k]
                return self.slice(o, lo, hi, s)
            return self.bind(self.eval_list(parts, st), go)
        return self.bind(self.eval_list([n.value, n.slice], st), lambda vs, s: self.index(vs[0], vs[1], s))

    def _int_or_none(self, v, s):
        """slice bound: returns list of (term_or_None, state) handling Optional[int]."""
        if v is None or isinstance(v, VNone):
            return [(None, s)]
        if isinstance(v, VInt):
            return [(v.t, s)]
        if isinstance(v, VOpt):
            cb = const_bool(v.isnone)
            if cb is True:
                return [(None, s)]
            if cb is False:
                return [(v.val.t, s)]
            s1 = s.fork()
            s1.assume(v.isnone)
            s1.trace.append('T')
            s.assume(z3.Not(v.isnone))
            s.trace.append('F')
            return [(None, s1), (v.val.t, s)]
        raise Unsupported('slice bound %r' % (v,))

    def slice(self, o, lo, hi, st):
        if isinstance(o, VOpt):
            return self.branch(o.isnone, st, lambda s: self.exc(TypeError, s),
                               lambda s: self.slice(o.val, lo, hi, s))
        res = []
        for lt, s1 in self._int_or_none(lo, st):
            for ht, s2 in self._int_or_none(hi, s1):
                if isinstance(o, VStr):
                    res.append(('val', VStr(seq_slice(o.t, lt, ht), o.kind), s2))
                elif isinstance(o, VTuple):
                    a = const_int(lt) if lt is not None else None
                    b = const_int(ht) if ht is not None else None
                    res.append(('val', VTuple(o.items[a:b]), s2))
                else:
                    sq, et = as_seq(o, s2)
                    res.append(('val', s2.alloc(HList(et, seq_slice(sq, lt, ht))), s2))
        return res

    def index(self, o, i, st):
        if isinstance(o, VOpt):
            return self.branch(o.isnone, st, lambda s: self.exc(TypeError, s),
                               lambda s: self.index(o.val, i, s))
        if isinstance(o, VNone):
            return self.exc(TypeError, st)
        if isinstance(o, VTuple):
            k = const_int(i.t)
            if k is None:
                raise Unsupported('symbolic tuple index')
            if -len(o.items) <= k < len(o.items):
                return self.val(o.items[k], st)
            return self.exc(IndexError, st)
        if isinstance(o, VStr):
            n = z3.Length(o.t)
            idx = norm_index(i.t, n)

            def ok(s):
                if o.kind == 'str':
                    return self.val(VStr(z3.SubString(o.t, idx, 1), 'str'), s)
                c = z3.Int(fresh_name('byte'))
                s.assume(c == str_at_code(o.t, idx))
                s.assume(z3.And(c >= 0, c <= 255))
                return self.val(VInt(c), s)
            return self.branch(z3.And(idx >= 0, idx < n), st, ok, lambda s: self.exc(IndexError, s))
        if isinstance(o, VRef) and isinstance(st.heap[o.ref], HBytes):
            return self.index(VStr(st.heap[o.ref].t, 'bytes'), i, st)
        if isinstance(o, VRef):
            h = st.heap[o.ref]
            if isinstance(h, HDict):
                if h.ktype is None:
                    return self.exc(KeyError, st)
                return self.branch(dict_has(h, i), st, lambda s: self.val(dict_get(s.heap[o.ref], i), s),
                                   lambda s: self.exc(KeyError, s))
            if isinstance(h, HList) and h.items is not None and const_int(i.t) is not None:
                k = const_int(i.t)
                if -len(h.items) <= k < len(h.items):
                    return self.val(h.items[k], st)
                return self.exc(IndexError, st)
            if isinstance(h, HList):
                if h.seq is None:
                    return self.exc(IndexError, st)
                n = z3.Length(h.seq)
                idx = norm_index(i.t, n)
                return self.branch(z3.And(idx >= 0, idx < n), st,
                                   lambda s: self.val(wrap(s.heap[o.ref].seq[idx], h.etype), s),
                                   lambda s: self.exc(IndexError, s))
        if isinstance(o, VSeq):
            n = z3.Length(o.t)
            idx = norm_index(i.t, n)
            return self.branch(z3.And(idx >= 0, idx < n), st,
                               lambda s: self.val(wrap(o.t[idx], o.etype), s),
                               lambda s: self.exc(IndexError, s))
        if isinstance(o, VOpaque) and isinstance(i, VInt) and const_int(i.t) is not None and \
                ('%s_item%d' % (o.cls, const_int(i.t))) in self.reg.specfuns:
            sf = self.reg.specfuns['%s_item%d' % (o.cls, const_int(i.t))]
            return self.val(wrap(sf.apply(o.ident), sf.restype), st)
        if isinstance(o, VOpaque) and isinstance(i, VStr) and const_str(i.t) is not None and \
                ('%s_key_%s' % (o.cls, const_str(i.t))) in self.reg.specfuns:
            sf = self.reg.specfuns['%s_key_%s' % (o.cls, const_str(i.t))]
            return self.val(wrap(sf.apply(o.ident), sf.restype), st)
        if isinstance(o, VPy) and isinstance(o.obj, (tuple, list, dict)):
            k = i.obj if isinstance(i, VPy) else (const_int(i.t) if isinstance(i, VInt) else const_str(i.t))
            try:
                return self.val(from_py(o.obj[k]), st)
            except (KeyError, IndexError) as e:
                return self.exc(type(e), st)
        raise Unsupported('index on %r' % (o,))

    def ex_Call(self, n, st, fr):
        from .calls import eval_call
        return eval_call(self, n, st, fr)

    def ex_Lambda(self, n, st, fr):
        raise Unsupported('lambda')

    def ex_ListComp(self, n, st, fr):
        raise Unsupported('list comprehension at %s:%d' % (fr.relpath, n.lineno))

    ex_DictComp = ex_ListComp
    ex_GeneratorExp = ex_ListComp

    # set by calls.py
    def call_function(self, *a, **kw):
        from .calls import call_function
        return call_function(self, *a, **kw)


def zero_of(t):
    if t == 'int':
        return z3.IntVal(0)
    if t == 'bool':
        return z3.BoolVal(False)
    if is_strt(t):
        return z3.StringVal('')
    if isinstance(t, tuple) and t[0] in ('obj', 'opaque'):
        return z3.IntVal(0)
    raise Unsupported('zero of %r' % (t,))
