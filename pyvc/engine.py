"""pyvc engine: path-by-path symbolic execution of the real function ASTs of
/repo against sidecar contracts, emitting named proof obligations.

See DESIGN.md section 2.  The accepted Python subset is whatever the visitors
below implement; anything else raises Unsupported (reported as STRUCTURE,
never skipped).
"""
import ast
import builtins
import hashlib
import importlib
import inspect
import os
import sys
import textwrap

import z3

from .vals import *     # noqa: F401,F403
from . import vals as V


class Unsupported(Exception):
    pass


class SpecError(Exception):
    pass


class NoneDeref(SpecError):
    """a clause reads a field of a value that is definitely None in this state"""


REPO = os.environ.get('PYVC_REPO', '/repo')

_uid = [0]


def fresh_name(prefix):
    _uid[0] += 1
    return '%s!%d' % (prefix, _uid[0])


def fresh_term(t, prefix):
    return z3.Const(fresh_name(prefix), sort_of(t))


# ============================================================ source access

class SourceIndex(object):
    """Parses real files from the working tree; finds functions by qualified name."""

    def __init__(self, repo=REPO):
        self.repo = repo
        self.trees = {}
        self.srcs = {}

    def tree(self, relpath):
        if relpath not in self.trees:
            p = os.path.join(self.repo, relpath)
            with open(p) as f:
                src = f.read()
            self.srcs[relpath] = src
            self.trees[relpath] = ast.parse(src, filename=p)
        return self.trees[relpath]

    def find(self, relpath, qualname):
        node = self.tree(relpath)
        for part in qualname.split('.'):
            found = None
            for ch in node.body:
                if isinstance(ch, (ast.FunctionDef, ast.AsyncFunctionDef, ast.ClassDef)) and ch.name == part:
                    found = ch
                    break
            if found is None:
                raise Unsupported('function %s not found in %s' % (qualname, relpath))
            node = found
        return node

    def source_of(self, relpath, node):
        return ast.get_source_segment(self.srcs[relpath], node) or ''

    def hash_of(self, relpath, node):
        return hashlib.sha1(self.source_of(relpath, node).encode()).hexdigest()[:16]


def relpath_of_module(mod):
    f = inspect.getsourcefile(mod) or mod.__file__
    f = os.path.realpath(f)
    root = os.path.realpath(REPO)
    if not f.startswith(root + os.sep):
        raise Unsupported('module %s is outside the repository' % mod.__name__)
    return f[len(root) + 1:]


# ============================================================ contracts

class LoopSpec(object):
    def __init__(self, inv=(), modifies=(), index=None, decreases=None, unroll=None, snapshot=()):
        self.snapshot = list(snapshot)   # locals whose loop-entry value is available as pre_<name>
        self.inv = list(inv)
        self.modifies = list(modifies)
        self.index = index
        self.decreases = decreases
        self.unroll = unroll


class Contract(object):
    def __init__(self, file, qualname, params=None, result=None, requires=(), ensures=(),
                 raises=None, modifies=None, loops=None, assumed=False, lemmas=(), ghost=None,
                 self_cls=None, inv=(), pure=False, note='', inline=(), raise_modifies=None,
                 old_names=(), cases=None, alias=None, hints=(), prune=False, uses=(), ghost_init=None,
                 body_slice=None):
        self.file = file
        self.qualname = qualname
        self.params = params or {}
        self.result = result
        self.requires = [self._nm('pre', i, c) for i, c in enumerate(requires)]
        self.ensures = [self._nm('post', i, c) for i, c in enumerate(ensures)]
        self.raises = {}
        for k, v in (raises or {}).items():
            self.raises[k] = [self._nm('raise_%s' % k, i, c) for i, c in enumerate(v)]
        self.modifies = modifies
        self.raise_modifies = raise_modifies
        self.loops = loops or {}
        self.assumed = assumed
        self.lemmas = list(lemmas)
        self.ghost = ghost or {}
        self.self_cls = self_cls
        self.inv = [self._nm('inv', i, c) for i, c in enumerate(inv)]
        self.pure = pure
        self.note = note
        self.inline = set(inline)
        self.cases = [tuple(x) for x in cases] if cases else None
        self.alias = dict(alias or {})
        self.hints = list(hints)      # (case name or None, text): proved from requires(+case), then assumed
        self.prune = prune
        self.uses = list(uses)        # instances of separately proved lemmas, assumed at entry
        self.ghost_init = dict(ghost_init or {})   # path-global ghost variables (name -> type), fresh at entry
        self.body_slice = body_slice   # (first, last): source substrings of the first / last top-level statement kept

    @staticmethod
    def _nm(kind, i, c):
        if isinstance(c, tuple):
            return (c[0], c[1])
        return ('%s%d' % (kind, i), c)


class Registry(object):
    """Everything sidecar: class field tables, contracts, spec functions, extern models."""

    def __init__(self):
        self.classes = {}      # name -> dict(fields={..}, py='module:Class', inv=[...])
        self.contracts = {}    # 'Class.method' or 'module.func' -> Contract
        self.specfuns = {}     # name -> SpecFun
        self.externs = {}      # dotted name -> callable(engine, st, args, kwargs) -> outcomes
        self.inline_ok = set()  # qualnames that may be inlined even if large
        self.no_inline = set()
        self.assumptions = []  # free-text assumptions used
        self.spec_consts = {}  # name -> Val, constants usable in clause text

    def klass(self, name, py=None, fields=None, inv=(), ghost=None):
        self.classes[name] = dict(py=py, fields=dict(fields or {}), inv=list(inv), ghost=dict(ghost or {}))

    def contract(self, *a, **kw):
        c = Contract(*a, **kw)
        self.contracts[c.qualname] = c
        return c

    def pyclass(self, name):
        ent = self.classes.get(name)
        if not ent or not ent.get('py'):
            return None
        if 'pyobj' not in ent:
            mod, cls = ent['py'].split(':')
            ent['pyobj'] = getattr(importlib.import_module(mod), cls)
        return ent['pyobj']


class SpecFun(object):
    """A spec-level function: z3 declaration + optional Python reference implementation
    + definitional axiom instances (callable(args terms) -> list of z3 Bool)."""

    def __init__(self, name, argtypes, restype, pyimpl=None, define=None, unfold=None):
        self.name = name
        self.argtypes = argtypes
        self.restype = restype
        self.pyimpl = pyimpl
        self.define = define      # callable(*terms) -> z3 term (non-recursive definition)
        self.unfold = unfold      # callable(*terms) -> [z3 Bool] definitional instances (recursive fn)
        if define is None:
            self.decl = z3.Function(name, *[sort_of(t) for t in argtypes], sort_of(restype))

    def apply(self, *terms):
        if self.define is not None:
            return self.define(*terms)
        return self.decl(*terms)


# ============================================================ state

class State(object):
    __slots__ = ('env', 'heap', 'pc', 'trace', 'nextref', 'flags', 'obls', 'frames', 'notes', 'ghost')

    def __init__(self):
        self.env = {}
        self.heap = {}
        self.pc = []
        self.trace = []
        self.nextref = [1]
        self.flags = set()
        self.obls = []       # obligations raised along this path: (name, [assumptions], goal, meta)
        self.frames = []
        self.notes = []
        self.ghost = {}      # path-global ghost values (e.g. 'now': what the first time.time() returns)

    def fork(self):
        s = State()
        s.env = dict(self.env)
        s.heap = {k: v.copy() for k, v in self.heap.items()}
        s.pc = list(self.pc)
        s.trace = list(self.trace)
        s.nextref = self.nextref
        s.flags = set(self.flags)
        s.obls = list(self.obls)
        s.frames = list(self.frames)
        s.notes = list(self.notes)
        s.ghost = dict(self.ghost)
        return s

    def alloc(self, hobj):
        r = self.nextref[0]
        self.nextref[0] += 1
        self.heap[r] = hobj
        return VRef(r)

    def assume(self, b):
        if b is True or (z3.is_bool(b) and z3.is_true(b)):
            return
        if z3.is_and(b):          # conjuncts separately: the syntactic branch decision sees each of them
            for c in b.children():
                self.assume(c)
            return
        self.pc.append(b)


class Frame(object):
    """Static context of the function being executed."""

    def __init__(self, module, pycls, funcname, node, relpath, contract=None, depth=0):
        self.module = module
        self.pycls = pycls
        self.funcname = funcname
        self.node = node
        self.relpath = relpath
        self.contract = contract
        self.depth = depth
        self.loop_ord = {}
        if node is not None:
            k = 0
            for n in ast.walk(node):
                if isinstance(n, (ast.For, ast.While, ast.AsyncFor)):
                    pass
            # ordinal in source order
            loops = [n for n in ast.walk(node) if isinstance(n, (ast.For, ast.While, ast.AsyncFor))]
            loops.sort(key=lambda n: (n.lineno, n.col_offset))
            for n in loops:
                self.loop_ord[id(n)] = k
                k += 1


# ============================================================ helpers

def truthy(v, st=None):
    if isinstance(v, VBool):
        return v.t
    if isinstance(v, VInt):
        return v.t != 0
    if isinstance(v, VStr):
        return z3.Length(v.t) > 0
    if isinstance(v, VNone):
        return z3.BoolVal(False)
    if isinstance(v, VOpt):
        return z3.And(z3.Not(v.isnone), truthy(v.val, st))
    if isinstance(v, VSeq):
        return z3.Length(v.t) > 0
    if isinstance(v, VTuple):
        return z3.BoolVal(len(v.items) > 0)
    if isinstance(v, VPy):
        return z3.BoolVal(bool(v.obj))
    if isinstance(v, (VOpaque, VExc)):
        return z3.BoolVal(True)
    if isinstance(v, VRef):
        h = st.heap[v.ref]
        if isinstance(h, HBytes):
            return z3.Length(h.t) > 0
        if isinstance(h, HList):
            return z3.Length(h.seq) > 0
        if isinstance(h, HDict):
            return z3.Length(h.keys) > 0
        return z3.BoolVal(True)
    raise Unsupported('truthiness of %r' % (v,))


def from_py(obj, kindhint=None):
    """Concrete Python constant -> Val"""
    if obj is None:
        return NONE
    if isinstance(obj, bool):
        return VBool(obj)
    if isinstance(obj, int):
        return VInt(obj)
    if isinstance(obj, bytes):
        return VStr(obj, 'bytes')
    if isinstance(obj, memoryview):
        return VStr(obj.tobytes(), 'mv')
    if isinstance(obj, str):
        try:
            obj.encode('latin-1')
            return VStr(obj, 'str')
        except UnicodeEncodeError:
            return VPy(obj)
    if isinstance(obj, tuple) and not hasattr(obj, '_fields'):
        return VTuple([from_py(o) for o in obj])
    return VPy(obj)


def veq(a, b, st=None):
    """Python == on values -> z3 Bool (or Python bool)."""
    if isinstance(a, VOpt) or isinstance(b, VOpt):
        if isinstance(a, VOpt) and isinstance(b, VOpt):
            return z3.Or(z3.And(a.isnone, b.isnone),
                         z3.And(z3.Not(a.isnone), z3.Not(b.isnone), veq(a.val, b.val, st)))
        o, x = (a, b) if isinstance(a, VOpt) else (b, a)
        if isinstance(x, VNone):
            return o.isnone
        return z3.And(z3.Not(o.isnone), veq(o.val, x, st))
    if isinstance(a, VNone) or isinstance(b, VNone):
        return z3.BoolVal(isinstance(a, VNone) and isinstance(b, VNone))
    if isinstance(a, VBool) and isinstance(b, VInt):
        a = VInt(z3.If(a.t, 1, 0))
    if isinstance(b, VBool) and isinstance(a, VInt):
        b = VInt(z3.If(b.t, 1, 0))
    if isinstance(a, (VInt, VBool, VStr, VSeq)) and type(a) is type(b):
        if isinstance(a, VStr) and ((a.kind == 'str') != (b.kind == 'str')):
            return z3.BoolVal(False)    # str never equals bytes
        return a.t == b.t
    if isinstance(a, VTuple) and isinstance(b, VTuple):
        if len(a.items) != len(b.items):
            return z3.BoolVal(False)
        return z3.And([veq(x, y, st) for x, y in zip(a.items, b.items)]) if a.items else z3.BoolVal(True)
    if isinstance(a, VPy) and isinstance(b, VPy):
        return z3.BoolVal(a.obj == b.obj)
    if isinstance(a, VRawTerm) and isinstance(b, VRawTerm) and a.t.sort() == b.t.sort():
        return a.t == b.t           # e.g. two dict maps: extensional Array equality
    if isinstance(a, VOpaque) and isinstance(b, VOpaque):
        return a.ident == b.ident
    if isinstance(a, VOpaque) and isinstance(b, VInt):       # identities kept in ghost integer logs
        return a.ident == b.t
    if isinstance(a, VInt) and isinstance(b, VOpaque):
        return a.t == b.ident
    if isinstance(a, VRef) and isinstance(b, VRef) and st is not None:
        ha, hb = st.heap[a.ref], st.heap[b.ref]
        if isinstance(ha, HList) and isinstance(hb, HList):
            return ha.seq == hb.seq
        return z3.BoolVal(a.ref == b.ref)
    if isinstance(a, VRef) and isinstance(b, VSeq) and st is not None:
        return st.heap[a.ref].seq == b.t
    if isinstance(b, VRef) and isinstance(a, VSeq) and st is not None:
        return st.heap[b.ref].seq == a.t
    if type(a) is not type(b):
        return z3.BoolVal(False)
    raise Unsupported('== on %r and %r' % (a, b))


def as_seq(v, st):
    """Val -> (z3 Seq term, elem type) for lists / sequences."""
    if isinstance(v, VSeq):
        return v.t, v.etype
    if isinstance(v, VDictVal):
        return v.keys, v.ktype
    if isinstance(v, VRef):
        h = st.heap[v.ref]
        if isinstance(h, HList):
            return h.seq, h.etype
        if isinstance(h, HDict):
            return h.keys, h.ktype
    raise Unsupported('not a sequence: %r' % (v,))


def elem_wrap(term, etype):
    return wrap(term, etype)


def seq_unit(v):
    return z3.Unit(term_of(v))


# ============================================================ spec evaluator

class SpecEnv(object):
    def __init__(self, st, env, old=None, result=None, exc=None):
        self.st = st
        self.env = env          # name -> Val
        self.old = old          # SpecEnv for the pre-state or None
        self.result = result
        self.exc = exc


from .spectext import rewrite_implies  # noqa: E402


class SpecEval(object):
    """Total, fork-free evaluation of contract clause text to z3 terms."""

    def __init__(self, reg):
        self.reg = reg
        self.cache = {}
        self.side = []   # definitional axiom instances collected while evaluating

    def parse(self, text):
        if text not in self.cache:
            t2 = rewrite_implies(text.strip())
            self.cache[text] = ast.parse(t2, mode='eval').body
        return self.cache[text]

    def bool(self, text, senv):
        try:
            v = self.ev(self.parse(text), senv)
        except NoneDeref:
            # undefined in this state: an unconstrained truth value (as a goal it can only be
            # discharged by an infeasible path condition; as an assumption it adds nothing)
            return z3.Bool(fresh_name('undef'))
        return self.as_bool(v, senv)

    def as_bool(self, v, senv):
        if isinstance(v, VBool):
            return v.t
        return truthy(v, senv.st)

    def value(self, text, senv):
        return self.ev(self.parse(text), senv)

    # --- node dispatch
    def ev(self, n, e):
        m = getattr(self, 'ev_' + type(n).__name__, None)
        if m is None:
            raise SpecError('spec: unsupported syntax %s' % ast.dump(n)[:80])
        return m(n, e)

    def ev_Constant(self, n, e):
        return from_py(n.value)

    def ev_Name(self, n, e):
        if n.id == 'result':
            if e.result is None:
                raise SpecError('result used where there is none')
            return e.result
        if n.id in e.env:
            v = e.env[n.id]
            if isinstance(v, VRef) and isinstance(e.st.heap.get(v.ref), HBytes):
                return VStr(e.st.heap[v.ref].t, 'bytes')
            return v
        if n.id in ('True', 'False'):
            return VBool(n.id == 'True')
        if n.id in e.st.ghost:
            return e.st.ghost[n.id]
        if n.id in getattr(self.reg, 'spec_consts', {}):
            return self.reg.spec_consts[n.id]
        raise SpecError('spec: unknown name %s' % n.id)

    def ev_Attribute(self, n, e):
        o = self.ev(n.value, e)
        return self.getattr(o, n.attr, e)

    def getattr(self, o, attr, e):
        if isinstance(o, VNone):
            raise NoneDeref('spec: .%s of None' % attr)
        if isinstance(o, VOpt):
            o = o.val
        if isinstance(o, VRef):
            h = e.st.heap[o.ref]
            if isinstance(h, HObj):
                if attr in h.fields:
                    return h.fields[attr]
                raise SpecError('spec: object %s has no field %s' % (h.cls, attr))
        if isinstance(o, VPy):
            return from_py(getattr(o.obj, attr))
        if isinstance(o, VExc):
            if attr in o.fields:
                return o.fields[attr]
        raise SpecError('spec: cannot read .%s of %r' % (attr, o))

    def ev_Tuple(self, n, e):
        return VTuple([self.ev(x, e) for x in n.elts])

    def ev_List(self, n, e):
        items = [self.ev(x, e) for x in n.elts]
        items = [i.val if isinstance(i, VOpt) else i for i in items]
        if not items:
            raise SpecError('spec: empty list literal needs a type; use empty("bytes")')
        et = type_of(items[0])
        t = z3.Unit(term_of(items[0]))
        for it in items[1:]:
            t = z3.Concat(t, z3.Unit(term_of(it)))
        return VSeq(t, et)

    def ev_UnaryOp(self, n, e):
        v = self.ev(n.operand, e)
        if isinstance(n.op, ast.Not):
            return VBool(z3.Not(self.as_bool(v, e)))
        if isinstance(n.op, ast.USub):
            return VInt(-v.t)
        raise SpecError('spec: unary op')

    def ev_guarded(self, x, e):
        """operand of and/or/implies: a read through None makes only this operand undefined"""
        try:
            return self.as_bool(self.ev(x, e), e)
        except NoneDeref:
            return z3.Bool(fresh_name('undef'))

    def ev_BoolOp(self, n, e):
        vs = [self.ev_guarded(x, e) for x in n.values]
        return VBool(z3.And(vs) if isinstance(n.op, ast.And) else z3.Or(vs))

    def ev_IfExp(self, n, e):
        c = self.as_bool(self.ev(n.test, e), e)
        a = self.ev(n.body, e)
        b = self.ev(n.orelse, e)
        return merge_vals(c, a, b, e.st)

    def ev_BinOp(self, n, e):
        if isinstance(n.op, ast.RShift):     # a ==> b
            a = self.as_bool(self.ev(n.left, e), e)
            b = self.as_bool(self.ev(n.right, e), e)
            return VBool(z3.Implies(a, b))
        a = self.ev(n.left, e)
        b = self.ev(n.right, e)
        if isinstance(a, VNone) or isinstance(b, VNone):
            raise NoneDeref('spec: arithmetic on None')
        return binop(n.op, a, b, e.st)

    def ev_Compare(self, n, e):
        left = self.ev(n.left, e)
        conj = []
        for op, rn in zip(n.ops, n.comparators):
            right = self.ev(rn, e)
            if (isinstance(left, VNone) or isinstance(right, VNone)) and \
                    isinstance(op, (ast.Lt, ast.LtE, ast.Gt, ast.GtE)):
                raise NoneDeref('spec: ordering comparison with None')
            conj.append(compare(op, left, right, e.st))
            left = right
        return VBool(z3.And(conj) if len(conj) > 1 else conj[0])

    def ev_Subscript(self, n, e):
        o = self.ev(n.value, e)
        if isinstance(o, VOpt):
            o = o.val
        if isinstance(n.slice, ast.Slice):
            lo = self.ev(n.slice.lower, e).t if n.slice.lower is not None else None
            hi = self.ev(n.slice.upper, e).t if n.slice.upper is not None else None
            if isinstance(o, VStr):
                return VStr(seq_slice(o.t, lo, hi), o.kind)
            s, et = as_seq(o, e.st)
            return VSeq(seq_slice(s, lo, hi), et)
        i = self.ev(n.slice, e)
        if isinstance(o, VTuple):
            k = const_int(i.t)
            return o.items[k]
        if isinstance(o, VStr):
            idx = norm_index(i.t, z3.Length(o.t))
            if o.kind == 'str':
                return VStr(z3.SubString(o.t, idx, 1), 'str')
            return VInt(str_at_code(o.t, idx))
        if isinstance(o, VDictVal):
            return dict_get(o, i)
        if isinstance(o, VRef) and isinstance(e.st.heap[o.ref], HDict):
            h = e.st.heap[o.ref]
            return dict_get(h, i)
        s, et = as_seq(o, e.st)
        return elem_wrap(s[norm_index(i.t, z3.Length(s))], et)

    def ev_Call(self, n, e):
        if isinstance(n.func, ast.Name):
            f = n.func.id
            if f == 'old':
                if e.old is None:
                    raise SpecError('old() outside a postcondition')
                return self.freeze(self.ev(n.args[0], e.old), e.old.st)
            if f == 'len':
                v = self.ev(n.args[0], e)
                if isinstance(v, VOpt):
                    v = v.val
                if isinstance(v, VStr):
                    return VInt(z3.Length(v.t))
                if isinstance(v, VTuple):
                    return VInt(len(v.items))
                if isinstance(v, VRef) and isinstance(e.st.heap[v.ref], HList) and e.st.heap[v.ref].seq is None:
                    return VInt(0)
                if isinstance(v, VRef) and isinstance(e.st.heap[v.ref], HDict) and e.st.heap[v.ref].ktype is None:
                    return VInt(0)
                if isinstance(v, VDictVal) and v.keys is None:
                    return VInt(0)
                s, _ = as_seq(v, e.st)
                return VInt(z3.Length(s))
            if f == 'implies':
                a = self.ev_guarded(n.args[0], e)
                b = self.ev_guarded(n.args[1], e)
                return VBool(z3.Implies(a, b))
            if f == 'isnone':
                return VBool(is_none(self.ev(n.args[0], e)))
            if f in ('forall', 'exists'):
                # forall('i', lo, hi, body)  -- i ranges over lo <= i < hi
                var = n.args[0].value
                lo = self.ev(n.args[1], e).t
                hi = self.ev(n.args[2], e).t
                clo, chi = const_int(lo), const_int(hi)
                if clo is not None and chi is not None and chi - clo <= 8:
                    # constant small range: expand instead of quantifying
                    parts = []
                    for kk in range(clo, chi):
                        e3 = SpecEnv(e.st, dict(e.env), e.old, e.result, e.exc)
                        e3.env[var] = VInt(kk)
                        if e.old is not None:
                            o3 = SpecEnv(e.old.st, dict(e.old.env), None, None)
                            o3.env[var] = VInt(kk)
                            e3.old = o3
                        parts.append(self.as_bool(self.ev(n.args[3], e3), e3))
                    if f == 'forall':
                        return VBool(z3.And(parts) if parts else z3.BoolVal(True))
                    return VBool(z3.Or(parts) if parts else z3.BoolVal(False))
                iv = z3.Int(fresh_name(var))
                e2 = SpecEnv(e.st, dict(e.env), e.old, e.result, e.exc)
                e2.env[var] = VInt(iv)
                if e.old is not None:
                    o2 = SpecEnv(e.old.st, dict(e.old.env), None, None)
                    o2.env[var] = VInt(iv)
                    e2.old = o2
                body = self.as_bool(self.ev(n.args[3], e2), e2)
                rng = z3.And(lo <= iv, iv < hi)
                if f == 'forall':
                    return VBool(z3.ForAll([iv], z3.Implies(rng, body)))
                return VBool(z3.Exists([iv], z3.And(rng, body)))
            if f in ('keys', 'mapof'):
                v = self.ev(n.args[0], e)
                if isinstance(v, VOpt):
                    v = v.val
                h = v if isinstance(v, VDictVal) else e.st.heap[v.ref]
                if h.ktype is None:      # untyped {} literal: empty (bytes -> bytes by default)
                    if f == 'keys':
                        return VSeq(z3.Empty(z3.SeqSort(String)), 'bytes')
                    return VRawTerm(z3.K(String, z3.StringVal('')))
                if f == 'keys':
                    return VSeq(h.keys, h.ktype)
                return VRawTerm(h.maps[0])
            if f == 'store':
                m_ = self.ev(n.args[0], e)
                k_ = self.ev(n.args[1], e)
                v_ = self.ev(n.args[2], e)
                return VRawTerm(z3.Store(m_.t, term_of(k_), term_of(v_)))
            if f == 'evid':
                # identity of a message value: an opaque event is its own id; an acknowledgement
                # dict literal {'event_name': N} is identified by 1000000 + N
                v = self.ev(n.args[0], e)
                if isinstance(v, VOpt):
                    v = v.val
                if isinstance(v, VOpaque):
                    return VInt(v.ident)
                if isinstance(v, VRef) and isinstance(e.st.heap[v.ref], HObj):
                    return VInt(z3.IntVal(v.ref))      # object identity: its heap address (distinct objects, distinct numbers)
                if isinstance(v, VOldRef):
                    return VInt(z3.IntVal(v.ref))
                if isinstance(v, VRef) and isinstance(e.st.heap[v.ref], HDict):
                    h = e.st.heap[v.ref]
                    return VInt(1000000 + z3.Select(h.maps[0], z3.StringVal('event_name')))
                raise SpecError('evid of %r' % (v,))
            if f in ('all_bytes', 'all_str'):
                var = n.args[0].value
                iv = z3.String(fresh_name(var))
                kind = 'bytes' if f == 'all_bytes' else 'str'
                e2 = SpecEnv(e.st, dict(e.env), e.old, e.result, e.exc)
                e2.env[var] = VStr(iv, kind)
                if e.old is not None:
                    o2 = SpecEnv(e.old.st, dict(e.old.env), None, None)
                    o2.env[var] = VStr(iv, kind)
                    e2.old = o2
                return VBool(z3.ForAll([iv], self.as_bool(self.ev(n.args[1], e2), e2)))
            if f == 'all_int':
                # all_int('k', body): body holds for every integer k
                var = n.args[0].value
                iv = z3.Int(fresh_name(var))
                e2 = SpecEnv(e.st, dict(e.env), e.old, e.result, e.exc)
                e2.env[var] = VInt(iv)
                if e.old is not None:
                    o2 = SpecEnv(e.old.st, dict(e.old.env), None, None)
                    o2.env[var] = VInt(iv)
                    e2.old = o2
                return VBool(z3.ForAll([iv], self.as_bool(self.ev(n.args[1], e2), e2)))
            if f == 'empty':
                et = n.args[0].value
                return VSeq(z3.Empty(z3.SeqSort(sort_of(et))), et)
            if f == 'unchanged':
                # unchanged(self.buffer, self.closed): each path evaluates equal to its old value
                conj = []
                for a in n.args:
                    new = self.ev(a, e)
                    old = self.ev(a, e.old)
                    if isinstance(new, VRef) and isinstance(old, VRef):
                        conj.append(self.ref_unchanged(new, old, e))
                    else:
                        conj.append(veq(self.freeze(new, e.st), self.freeze(old, e.old.st), None))
                return VBool(z3.And(conj) if conj else z3.BoolVal(True))
            if f == 'raised':
                return VBool(e.exc is not None)
            if f in ('int', 'bool'):
                v = self.ev(n.args[0], e)
                if f == 'int' and isinstance(v, VBool):
                    return VInt(z3.If(v.t, 1, 0))
                if f == 'bool':
                    return VBool(self.as_bool(v, e))
                return v
            if f == 'mv' or f == 'bytes' or f == 'memoryview':
                v = self.ev(n.args[0], e)
                return VStr(v.t, 'mv' if f != 'bytes' else 'bytes')
            if f == 'contains':
                hay = self.ev(n.args[0], e)
                nd = self.ev(n.args[1], e)
                return VBool(contains(hay, nd, e.st))
            if f in self.reg.specfuns:
                sf = self.reg.specfuns[f]
                args = [self.ev(a, e) for a in n.args]
                terms = []
                for a in args:
                    if isinstance(a, VRawTerm):
                        terms.append(a.t)
                    elif isinstance(a, VRef):
                        s, _ = as_seq(a, e.st)
                        terms.append(s)
                    elif isinstance(a, VOpt):
                        terms.append(term_of(a.val))
                    else:
                        terms.append(term_of(a))
                if sf.unfold is not None:
                    self.side.extend(sf.unfold(*terms))
                return wrap(sf.apply(*terms), sf.restype)
            raise SpecError('spec: unknown function %s' % f)
        if isinstance(n.func, ast.Attribute):
            o = self.ev(n.func.value, e)
            m = n.func.attr
            args = [self.ev(a, e) for a in n.args]
            if isinstance(o, VOpt):
                o = o.val
            if isinstance(o, VStr):
                # an optional argument is read as its value (the clause guards it with isnone elsewhere)
                return str_method_pure(o, m, [a.val if isinstance(a, VOpt) else a for a in args], self.reg)
            if isinstance(o, VDictVal) and m == 'has':
                return VBool(dict_has(o, args[0]))
            if isinstance(o, VRef) and isinstance(e.st.heap[o.ref], HDict):
                h = e.st.heap[o.ref]
                if m == 'has':
                    return VBool(dict_has(h, args[0]))
        raise SpecError('spec: unsupported call %s' % ast.dump(n)[:100])

    def freeze(self, v, st):
        """values read in the pre-state must not be re-read through the post-state heap"""
        if isinstance(v, VRef):
            h = st.heap[v.ref]
            if isinstance(h, HList):
                if h.seq is None:
                    raise SpecError('old() of an untyped empty list')
                return VSeq(h.seq, h.etype)
            if isinstance(h, HDict):
                return VDictVal(h.ktype, h.vtype, h.keys, list(h.maps))
            return VOldRef(v.ref)      # only its None-ness / identity may be used
        if isinstance(v, VOpt):
            return VOpt(v.isnone, self.freeze(v.val, st))
        if isinstance(v, VTuple):
            return VTuple([self.freeze(x, st) for x in v.items])
        return v

    def ref_unchanged(self, new, old, e):
        hn = e.st.heap[new.ref]
        ho = e.old.st.heap[old.ref]
        if isinstance(hn, HList):
            return hn.seq == ho.seq
        if isinstance(hn, HDict):
            return z3.And([hn.keys == ho.keys] + [a == b for a, b in zip(hn.maps, ho.maps)])
        return z3.BoolVal(new.ref == old.ref)


class VRawTerm(Val):
    """a bare z3 term (e.g. the Array of a dict) handed to a spec function"""
    __slots__ = ('t',)

    def __init__(self, t):
        self.t = t


class VOldRef(Val):
    """reference to an object as of the pre-state: fields must be read inside old(...)"""
    __slots__ = ('ref',)

    def __init__(self, ref):
        self.ref = ref


class VDictVal(Val):
    """immutable dict value (a pre-state snapshot)"""
    __slots__ = ('ktype', 'vtype', 'keys', 'maps')

    def __init__(self, ktype, vtype, keys, maps):
        self.ktype, self.vtype, self.keys, self.maps = ktype, vtype, keys, maps

    @property
    def mem(self):
        return None if self.ktype is None or self.keys is None else memof(self.keys)


def is_none(v):
    if isinstance(v, VNone):
        return z3.BoolVal(True)
    if isinstance(v, VOpt):
        return v.isnone
    return z3.BoolVal(False)


def merge_vals(c, a, b, st=None):
    """If(c, a, b) on values (used by specs and by conditional expressions)."""
    cb = const_bool(c)
    if cb is True:
        return a
    if cb is False:
        return b
    if isinstance(a, VNone) and isinstance(b, VNone):
        return a
    if isinstance(a, VNone) or isinstance(b, VNone) or isinstance(a, VOpt) or isinstance(b, VOpt):
        def parts(x):
            if isinstance(x, VNone):
                return z3.BoolVal(True), None
            if isinstance(x, VOpt):
                return x.isnone, x.val
            return z3.BoolVal(False), x
        na, va = parts(a)
        nb, vb = parts(b)
        if va is None and vb is None:
            return NONE
        if va is None:
            va = vb
        if vb is None:
            vb = va
        return VOpt(z3.If(c, na, nb), merge_vals(c, va, vb, st))
    if isinstance(a, VBool) and isinstance(b, VBool):
        return VBool(z3.If(c, a.t, b.t))
    if isinstance(a, VInt) and isinstance(b, VInt):
        return VInt(z3.If(c, a.t, b.t))
    if isinstance(a, VStr) and isinstance(b, VStr):
        return VStr(z3.If(c, a.t, b.t), a.kind)
    if isinstance(a, VSeq) and isinstance(b, VSeq):
        return VSeq(z3.If(c, a.t, b.t), a.etype)
    if isinstance(a, VOpaque) and isinstance(b, VOpaque) and a.cls == b.cls:
        return VOpaque(a.cls, z3.If(c, a.ident, b.ident))
    if isinstance(a, VTuple) and isinstance(b, VTuple) and len(a.items) == len(b.items):
        return VTuple([merge_vals(c, x, y, st) for x, y in zip(a.items, b.items)])
    if isinstance(a, VPy) and isinstance(b, VPy) and a.obj is b.obj:
        return a
    if isinstance(a, VRawTerm) and isinstance(b, VRawTerm):
        return VRawTerm(z3.If(c, a.t, b.t))
    raise Unsupported('cannot merge %r / %r' % (a, b))


def binop(op, a, b, st):
    if isinstance(a, VOpt):
        a = a.val
    if isinstance(b, VOpt):
        b = b.val
    if isinstance(a, VBool) and not isinstance(op, (ast.BitAnd, ast.BitOr, ast.BitXor)):
        a = VInt(z3.If(a.t, 1, 0))
    if isinstance(b, VBool) and not isinstance(op, (ast.BitAnd, ast.BitOr, ast.BitXor)):
        b = VInt(z3.If(b.t, 1, 0))
    if isinstance(op, ast.Add):
        if isinstance(a, VInt) and isinstance(b, VInt):
            return VInt(a.t + b.t)
        if isinstance(a, VStr) and isinstance(b, VStr):
            return VStr(z3.Concat(a.t, b.t), 'bytes' if a.kind == 'mv' else a.kind)
        if isinstance(a, (VSeq, VRef)) and isinstance(b, (VSeq, VRef)):
            sa, et = as_seq(a, st)
            sb, _ = as_seq(b, st)
            return VSeq(z3.Concat(sa, sb), et)
        if isinstance(a, VTuple) and isinstance(b, VTuple):
            return VTuple(a.items + b.items)
    if isinstance(a, VInt) and isinstance(b, VInt):
        if isinstance(op, ast.Sub):
            return VInt(a.t - b.t)
        if isinstance(op, ast.Mult):
            return VInt(a.t * b.t)
        if isinstance(op, ast.FloorDiv):
            return VInt(py_floordiv(a.t, b.t))
        if isinstance(op, ast.Mod):
            return VInt(py_mod(a.t, b.t))
        ca, cb = const_int(a.t), const_int(b.t)
        if isinstance(op, ast.LShift):
            if cb is not None:
                return VInt(a.t * (1 << cb))
        if isinstance(op, ast.RShift) and cb is not None:
            return VInt(py_floordiv(a.t, z3.IntVal(1 << cb)))
        if isinstance(op, ast.Pow) and ca is not None and cb is not None:
            return VInt(ca ** cb)
        if isinstance(op, (ast.BitAnd, ast.BitOr, ast.BitXor)):
            return VInt(bitop(type(op), a.t, b.t))
    if isinstance(op, ast.Mult) and isinstance(a, VStr) and isinstance(b, VInt):
        k = const_int(b.t)
        if k is not None:
            t = z3.StringVal('')
            for _ in range(k):
                t = z3.Concat(t, a.t)
            return VStr(t, a.kind)
    if isinstance(op, (ast.BitOr, ast.BitAnd)) and isinstance(a, VBool) and isinstance(b, VBool):
        return VBool(z3.Or(a.t, b.t) if isinstance(op, ast.BitOr) else z3.And(a.t, b.t))
    raise Unsupported('binop %s on %r, %r' % (type(op).__name__, a, b))


def and_const(x, K):
    """x & K for a constant K >= 0 and any x >= 0, in pure integer arithmetic"""
    tot = None
    b = 0
    while (1 << b) <= K:
        if K & (1 << b):
            lo = b
            while K & (1 << b):
                b += 1
            # run of set bits [lo, b): 2^lo * ((x div 2^lo) mod 2^(b-lo))
            q = x if lo == 0 else x / z3.IntVal(1 << lo)
            term = q % z3.IntVal(1 << (b - lo))
            if lo:
                term = (1 << lo) * term
            tot = term if tot is None else tot + term
        else:
            b += 1
    return tot if tot is not None else z3.IntVal(0)


def bitop(kind, a, b, depth=0):
    """a <op> b on non-negative ints.  Constants fold; If-terms distribute; a constant
    operand gives an exact arithmetic encoding (div/mod by powers of two); otherwise Int<->BV."""
    a = z3.simplify(a)
    b = z3.simplify(b)
    ca = a.as_long() if z3.is_int_value(a) else None
    cb = b.as_long() if z3.is_int_value(b) else None
    if ca is not None and cb is not None:
        return z3.IntVal({ast.BitAnd: ca & cb, ast.BitOr: ca | cb, ast.BitXor: ca ^ cb}[kind])
    if depth < 6:
        if z3.is_app_of(a, z3.Z3_OP_ITE):
            return z3.If(a.arg(0), bitop(kind, a.arg(1), b, depth + 1), bitop(kind, a.arg(2), b, depth + 1))
        if z3.is_app_of(b, z3.Z3_OP_ITE):
            return z3.If(b.arg(0), bitop(kind, a, b.arg(1), depth + 1), bitop(kind, a, b.arg(2), depth + 1))
    if ca is not None or cb is not None:
        K, x = (ca, b) if ca is not None else (cb, a)
        if K >= 0:
            conj = and_const(x, K)
            if kind is ast.BitAnd:
                return conj
            if kind is ast.BitOr:
                return x + K - conj
            return x + K - 2 * conj
    w = BITWIDTH[0]
    f = {ast.BitAnd: bit_and, ast.BitOr: bit_or, ast.BitXor: bit_xor}[kind]
    return f(a, b, w)


# width used for Int<->BV conversions of bitwise operators; obligations must
# establish 0 <= operand < 2**width (the executor emits range side conditions)
BITWIDTH = [16]


def compare(op, a, b, st):
    if isinstance(op, ast.Eq):
        return veq(a, b, st)
    if isinstance(op, ast.NotEq):
        return z3.Not(veq(a, b, st))
    if isinstance(op, (ast.Is, ast.IsNot)):
        if isinstance(b, VNone) or isinstance(a, VNone):
            r = is_none(a if isinstance(b, VNone) else b)
        elif isinstance(a, VBool) and isinstance(b, VBool):
            r = a.t == b.t
        elif isinstance(a, VRef) and isinstance(b, VRef):
            r = z3.BoolVal(a.ref == b.ref)
        elif isinstance(a, VPy) and isinstance(b, VPy):
            r = z3.BoolVal(a.obj is b.obj)
        elif isinstance(a, VBool) or isinstance(b, VBool):
            # `x is True` where x is Optional[bool]/other
            o = a if not isinstance(a, VBool) else b
            c = b if o is a else a
            if isinstance(o, VOpt) and isinstance(o.val, VBool):
                r = z3.And(z3.Not(o.isnone), o.val.t == c.t)
            else:
                r = z3.BoolVal(False)
        else:
            raise Unsupported('is on %r, %r' % (a, b))
        return r if isinstance(op, ast.Is) else z3.Not(r)
    if isinstance(op, (ast.In, ast.NotIn)):
        r = contains(b, a, st)
        return r if isinstance(op, ast.In) else z3.Not(r)
    if isinstance(a, VOpt):
        a = a.val
    if isinstance(b, VOpt):
        b = b.val
    if isinstance(a, VBool):
        a = VInt(z3.If(a.t, 1, 0))
    if isinstance(b, VBool):
        b = VInt(z3.If(b.t, 1, 0))
    if isinstance(a, VInt) and isinstance(b, VInt):
        if isinstance(op, ast.Lt):
            return a.t < b.t
        if isinstance(op, ast.LtE):
            return a.t <= b.t
        if isinstance(op, ast.Gt):
            return a.t > b.t
        if isinstance(op, ast.GtE):
            return a.t >= b.t
    raise Unsupported('compare %s on %r, %r' % (type(op).__name__, a, b))


def contains(container, item, st):
    if isinstance(container, VOpt):
        container = container.val
    if isinstance(item, VOpt) and isinstance(container, (VSeq, VStr)):
        item = item.val         # an optional item is read as its value (the clause / code guards None separately)
    if isinstance(container, VStr):
        if isinstance(item, VStr):
            return z3.Contains(container.t, item.t)
        if isinstance(item, VInt):
            return z3.Contains(container.t, z3.StrFromCode(item.t))
    if isinstance(container, VTuple):
        return z3.Or([veq(item, x, st) for x in container.items]) if container.items else z3.BoolVal(False)
    if isinstance(container, VPy) and isinstance(container.obj, (tuple, list, set, frozenset)):
        return z3.Or([veq(item, from_py(x), st) for x in container.obj]) if container.obj else z3.BoolVal(False)
    if isinstance(container, VDictVal):
        return dict_has(container, item)
    if isinstance(container, VRef) and isinstance(st.heap[container.ref], HDict):
        return dict_has(st.heap[container.ref], item)
    if isinstance(container, VRef) and isinstance(st.heap[container.ref], HList) and st.heap[container.ref].seq is None:
        return z3.BoolVal(False)
    if isinstance(container, (VSeq, VRef)):
        s, _ = as_seq(container, st)
        return z3.Contains(s, z3.Unit(term_of(item)))
    raise Unsupported('in on %r' % (container,))


def dict_has(h, k):
    if h.ktype is None:
        return z3.BoolVal(False)      # untyped {} literal: still empty
    return z3.Select(memof(h.keys), term_of(k))


def dict_get(h, k):
    if h.ktype is None:
        return VInt(0)
    kt = term_of(k)
    if isinstance(h.vtype, tuple) and h.vtype[0] == 'tuple':
        return VTuple([wrap(z3.Select(m, kt), t) for m, t in zip(h.maps, h.vtype[1:])])
    return wrap(z3.Select(h.maps[0], kt), h.vtype)


WS_CHARS = ' \t\n\r\x0b\x0c'


def str_method_pure(o, m, args, reg):
    """String methods that have an exact z3 encoding or a registered spec function."""
    if m in ('tobytes',):
        return VStr(o.t, 'bytes')
    if m == 'startswith':
        return VBool(z3.PrefixOf(args[0].t, o.t))
    if m == 'endswith':
        return VBool(z3.SuffixOf(args[0].t, o.t))
    if m == 'find':
        return VInt(z3.IndexOf(o.t, args[0].t, 0))
    for nm in ('lower', 'strip', 'upper'):
        if m == nm and nm in reg.specfuns:
            sf = reg.specfuns[nm]
            return VStr(sf.apply(o.t), o.kind)
    raise Unsupported('string method %s' % m)
