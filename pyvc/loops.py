"""Loops: cut at the head with a sidecar invariant (unbounded), or bounded
unrolling (labelled bounded, never counted as proved)."""
import ast

import z3

from .vals import *          # noqa: F401,F403
from .engine import (Unsupported, SpecError, SpecEnv, truthy, from_py, as_seq, fresh_name, LoopSpec)


def loop_spec(ex, n, fr):
    root = getattr(fr, 'root', fr)
    c = fr.contract
    k = fr.loop_ord.get(id(n))
    if c is not None and k in c.loops:
        return c.loops[k]
    # loops of inlined helpers: keyed 'Qual.name#k' in the root contract
    rc = root.contract
    if rc is not None:
        key = '%s#%d' % (fr.funcname, k)
        if key in rc.loops:
            return rc.loops[key]
    return None


def iter_source(ex, v, st):
    """for-loop iterable -> ('seq', term, etype) | ('range', lo, hi, step) | ('items', ref) | ('concrete', [vals])"""
    if isinstance(v, VPy) and isinstance(v.obj, tuple) and v.obj and v.obj[0] == 'range':
        a = v.obj[1]
        if len(a) == 1:
            return ('range', z3.IntVal(0), a[0].t, z3.IntVal(1))
        if len(a) == 2:
            return ('range', a[0].t, a[1].t, z3.IntVal(1))
        return ('range', a[0].t, a[1].t, a[2].t)
    if isinstance(v, VPy) and isinstance(v.obj, tuple) and v.obj and v.obj[0] == 'dictview':
        _, ref, what = v.obj
        if st.heap[ref.ref].ktype is None:
            return ('concrete', [])
        return ('dict' + what, ref)
    if isinstance(v, VTuple):
        return ('concrete', v.items)
    if isinstance(v, VPy) and isinstance(v.obj, (tuple, list)):
        return ('concrete', [from_py(x) for x in v.obj])
    if isinstance(v, VRef):
        h = st.heap[v.ref]
        if isinstance(h, HList):
            if h.items is not None:
                return ('concrete', h.items)
            if h.seq is None:
                return ('concrete', [])
            return ('seq', h.seq, h.etype)
        if isinstance(h, HDict):
            if h.ktype is None:
                return ('concrete', [])
            return ('dictkeys', v)
    if isinstance(v, VSeq):
        return ('seq', v.t, v.etype)
    if isinstance(v, VOpaque) and ('iter_' + v.cls) in ex.reg.specfuns:
        sf = ex.reg.specfuns['iter_' + v.cls]
        return ('seq', sf.apply(v.ident), sf.restype[1])
    raise Unsupported('iteration over %r' % (v,))


SPEC_BUILTINS = {'old', 'len', 'implies', 'isnone', 'forall', 'exists', 'all_int', 'all_bytes', 'all_str', 'empty',
                 'unchanged', 'raised', 'int', 'bool', 'mv', 'bytes', 'memoryview', 'contains', 'keys', 'mapof', 'store',
                 'evid', 'result', 'True', 'False', 'None'}


def inv_applicable(ex, spec, st, fr, n):
    """every free name of the invariant text is bound here (a refactoring that renames or removes a
    local makes the sidecar invariant inapplicable: the loop is then unrolled, labelled bounded)"""
    import ast as _ast
    bound = set(st.env) | set(st.ghost) | set(getattr(ex.reg, 'spec_consts', {})) | set(ex.reg.specfuns) | SPEC_BUILTINS
    bound |= {spec.index or '_i'} | {'pre_' + x for x in spec.snapshot}
    # names first bound inside the loop body (targets) are legitimately absent at the head only if
    # the invariant does not mention them
    for text in spec.inv:
        tx = text[1] if isinstance(text, tuple) else text
        tree = ex.spec.parse(tx)
        qvars = set()
        for node in _ast.walk(tree):
            if isinstance(node, _ast.Call) and isinstance(node.func, _ast.Name) and \
                    node.func.id in ('forall', 'exists', 'all_int', 'all_bytes', 'all_str') and node.args and \
                    isinstance(node.args[0], _ast.Constant):
                qvars.add(node.args[0].value)
        for node in _ast.walk(tree):
            if isinstance(node, _ast.Name) and node.id not in bound and node.id not in qvars:
                return node.id
    return None


def run_loop(ex, n, st, fr):
    spec = loop_spec(ex, n, fr)
    if spec is not None and not spec.unroll:
        missing = inv_applicable(ex, spec, st, fr, n)
        if missing is not None:
            ex.bounded.append('%s:%d invariant names `%s` which is not bound here: loop unrolled %d times instead '
                              '(bounded, not proved)' % (fr.relpath, n.lineno, missing, ex.default_unroll(n, fr)))
            spec = None
    if isinstance(n, ast.While):
        if spec is None or spec.unroll:
            return unroll_while(ex, n, st, fr, spec.unroll if spec else ex.default_unroll(n, fr))
        return cut_while(ex, n, st, fr, spec)
    # for
    def go(itv, s):
        if isinstance(itv, VOpt):
            return ex.unopt(itv, s, go)
        src = iter_source(ex, itv, s)
        if src[0] == 'concrete':
            return unroll_concrete(ex, n, src[1], s, fr)
        if spec is None or spec.unroll:
            return unroll_for(ex, n, src, s, fr, spec.unroll if spec else ex.default_unroll(n, fr))
        return cut_for(ex, n, src, s, fr, spec)
    return ex.bind_stmt(ex.eval(n.iter, st, fr), go)


def after_body(outs):
    """split loop-body outcomes"""
    cont, brk, other = [], [], []
    for k, v, s in outs:
        if k in ('next', 'cnt'):
            cont.append(s)
        elif k == 'brk':
            brk.append(s)
        else:
            other.append((k, v, s))
    return cont, brk, other


def unroll_concrete(ex, n, items, st, fr):
    states = [st]
    res = []
    for it in items:
        new = []
        for s in states:
            outs = ex.bind_stmt(ex.assign(n.target, it, s, fr), None) if False else None
            a = ex.assign(n.target, it, s, fr)
            for k, v, s1 in a:
                if k != 'next':
                    res.append((k, v, s1))
                    continue
                cont, brk, other = after_body(ex.exec_block(n.body, s1, fr))
                new.extend(cont)
                res.extend(('next', None, b) for b in brk)
                res.extend(other)
        states = new
    for s in states:
        res.extend(ex.exec_block(n.orelse, s, fr) if n.orelse else [('next', None, s)])
    return res


def unroll_while(ex, n, st, fr, k):
    ex.bounded.append('%s:%d while-loop unrolled %d times' % (fr.relpath, n.lineno, k))
    res = []
    states = [st]
    for it in range(k + 1):
        new = []
        for s in states:
            for kk, v, s1 in ex.eval(n.test, s, fr):
                if kk != 'val':
                    res.append((kk, v, s1))
                    continue

                def body(s2):
                    if it == k:
                        s2.flags.add('bounded-cutoff')
                        return [('cutoff', None, s2)]
                    return [('body', None, s2)]
                for k3, _, s3 in ex.branch(truthy(v, s1), s1, body, lambda s2: [('exit', None, s2)]):
                    if k3 == 'exit':
                        res.extend(ex.exec_block(n.orelse, s3, fr) if n.orelse else [('next', None, s3)])
                    elif k3 == 'body':
                        cont, brk, other = after_body(ex.exec_block(n.body, s3, fr))
                        new.extend(cont)
                        res.extend(('next', None, b) for b in brk)
                        res.extend(other)
                    # cutoff: path dropped (bounded)
        states = new
    return res


def src_len_item(ex, src, i, st):
    if src[0] == 'seq':
        return z3.Length(src[1]), wrap(src[1][i], src[2])
    if src[0] == 'range':
        lo, hi, step = src[1], src[2], src[3]
        cs = const_int(step)
        if cs is None or cs <= 0:
            raise Unsupported('range step must be a positive constant or proven positive')
        n = z3.If(hi > lo, (hi - lo + cs - 1) / cs, z3.IntVal(0))
        return n, VInt(lo + i * cs)
    if src[0] in ('dictkeys', 'dictitems', 'dictvalues'):
        h = st.heap[src[1].ref]
        k = wrap(h.keys[i], h.ktype)
        # a true fact the sequence solvers do not find by themselves: the i-th key is a key
        st.assume(z3.Implies(z3.And(i >= 0, i < z3.Length(h.keys)), z3.Select(memof(h.keys), h.keys[i])))
        ci = const_int(i)
        if ci is not None:
            for j in range(ci):      # dict keys are pairwise distinct
                st.assume(z3.Implies(ci < z3.Length(h.keys), h.keys[j] != h.keys[ci]))
        from .engine import dict_get
        if src[0] == 'dictkeys':
            return z3.Length(h.keys), k
        if src[0] == 'dictvalues':
            return z3.Length(h.keys), dict_get(h, k)
        return z3.Length(h.keys), VTuple([k, dict_get(h, k)])
    raise Unsupported('loop source %r' % (src[0],))


def unroll_for(ex, n, src, st, fr, k):
    ex.bounded.append('%s:%d for-loop unrolled %d times' % (fr.relpath, n.lineno, k))
    res = []
    states = [st]
    for it in range(k + 1):
        new = []
        for s in states:
            ln, item = src_len_item(ex, src, z3.IntVal(it), s)

            def body(s2):
                if it == k:
                    s2.flags.add('bounded-cutoff')
                    return []
                out = []
                for kk, v, s3 in ex.assign(n.target, item, s2, fr):
                    if kk != 'next':
                        out.append((kk, v, s3))
                        continue
                    cont, brk, other = after_body(ex.exec_block(n.body, s3, fr))
                    new.extend(cont)
                    out.extend(('next', None, b) for b in brk)
                    out.extend(other)
                return out
            res.extend(ex.branch(ln > it, s, body,
                                 lambda s2: ex.exec_block(n.orelse, s2, fr) if n.orelse else [('next', None, s2)]))
        states = new
    return res


# ------------------------------------------------------------------ invariant cuts

def havoc_targets(ex, spec, st, fr):
    """havoc locals and fields named in spec.modifies"""
    from .calls import havoc_val
    for path in spec.modifies:
        parts = path.split('.')
        if len(parts) == 1 and parts[0] in st.ghost and parts[0] not in st.env:
            st.ghost[parts[0]] = havoc_val(ex, st.ghost[parts[0]], path, st)      # ghost variable
            continue
        if len(parts) == 1:
            cur = st.env.get(parts[0])
            if cur is None:
                continue     # first bound inside the loop body: nothing to havoc at the head
            if isinstance(cur, VRef):
                st.env[parts[0]] = havoc_val(ex, cur, path, st)
            else:
                st.env[parts[0]] = havoc_val(ex, cur, path, st)
        else:
            from .calls import havoc
            havoc(ex, [path], st.env, st, fr.contract or getattr(fr, 'root', fr).contract)


def check_inv(ex, spec, st, fr, n, phase, extra_env=None, old=None):
    env = dict(st.env)
    if extra_env:
        env.update(extra_env)
    senv = SpecEnv(st, env, old)
    for i, text in enumerate(spec.inv):
        nm, tx = (text if isinstance(text, tuple) else ('inv%d' % i, text))
        goal = ex.spec.bool(tx, senv)
        side = list(ex.spec.side)
        ex.spec.side = []
        st.obls.append(('loop@%d.%s.%s' % (fr.loop_ord.get(id(n), 0), nm, phase), list(st.pc) + side, goal,
                        {'kind': 'loop-' + phase, 'func': fr.funcname}))


def assume_inv(ex, spec, st, fr, extra_env=None, old=None):
    env = dict(st.env)
    if extra_env:
        env.update(extra_env)
    senv = SpecEnv(st, env, old)
    for text in spec.inv:
        tx = text[1] if isinstance(text, tuple) else text
        st.assume(ex.spec.bool(tx, senv))
    for ax in ex.spec.side:
        st.assume(ax)
    ex.spec.side = []


def loop_old(ex, st, fr):
    root = getattr(fr, 'root', fr)
    return getattr(root, 'pre_env', None)


def take_snapshot(spec, st):
    for nm in spec.snapshot:
        if nm in st.env:
            st.env['pre_' + nm] = st.env[nm]


def cut_while(ex, n, st, fr, spec):
    old = loop_old(ex, st, fr)
    take_snapshot(spec, st)
    check_inv(ex, spec, st, fr, n, 'init', old=old)
    havoc_targets(ex, spec, st, fr)
    assume_inv(ex, spec, st, fr, old=old)
    st.trace.append('L')
    res = []
    for kk, v, s1 in ex.eval(n.test, st, fr):
        if kk != 'val':
            res.append((kk, v, s1))
            continue

        def body(s2):
            out = []
            dec0 = None
            if spec.decreases:
                dec0 = ex.spec.value(spec.decreases, SpecEnv(s2, dict(s2.env), old)).t
            cont, brk, other = after_body(ex.exec_block(n.body, s2, fr))
            for c in cont:
                check_inv(ex, spec, c, fr, n, 'keep', old=old)
                if dec0 is not None:
                    dec1 = ex.spec.value(spec.decreases, SpecEnv(c, dict(c.env), old)).t
                    c.obls.append(('loop@%d.decreases' % fr.loop_ord.get(id(n), 0), list(c.pc),
                                   z3.And(dec0 >= 0, dec1 < dec0), {'kind': 'loop-decreases'}))
                out.append(('stop', None, c))
            out.extend(('next', None, b) for b in brk)
            out.extend(other)
            return out
        res.extend(ex.branch(truthy(v, s1), s1, body,
                             lambda s2: ex.exec_block(n.orelse, s2, fr) if n.orelse else [('next', None, s2)]))
    return res


def cut_for(ex, n, src, st, fr, spec):
    old = loop_old(ex, st, fr)
    idx = spec.index or '_i'
    take_snapshot(spec, st)
    ln0, _ = src_len_item(ex, src, z3.IntVal(0), st)
    check_inv(ex, spec, st, fr, n, 'init', {idx: VInt(0)}, old=old)
    havoc_targets(ex, spec, st, fr)
    st.trace.append('L')
    i = z3.Int(fresh_name(idx))
    ln, item = src_len_item(ex, src, i, st)
    # arbitrary iteration
    s_it = st.fork()
    s_it.trace.append('it')
    s_it.assume(z3.And(i >= 0, i < ln))
    assume_inv(ex, spec, s_it, fr, {idx: VInt(i)}, old=old)
    res = []
    for kk, v, s3 in ex.assign(n.target, item, s_it, fr):
        if kk != 'next':
            res.append((kk, v, s3))
            continue
        cont, brk, other = after_body(ex.exec_block(n.body, s3, fr))
        for c in cont:
            check_inv(ex, spec, c, fr, n, 'keep', {idx: VInt(i + 1)}, old=old)
            res.append(('stop', None, c))
        res.extend(('next', None, b) for b in brk)
        res.extend(other)
    # exit
    s_ex = st
    s_ex.trace.append('ex')
    assume_inv(ex, spec, s_ex, fr, {idx: VInt(ln)}, old=old)
    res.extend(ex.exec_block(n.orelse, s_ex, fr) if n.orelse else [('next', None, s_ex)])
    return res
