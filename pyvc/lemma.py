"""Spec-level lemmas proved by an explicit induction rule (base/step VCs)."""
import z3
from .vals import *     # noqa: F401,F403
from .engine import SpecEnv, State, fresh_name
from .verify import Obl


def _env(ex, st, vars_):
    env = {}
    for nm, t in vars_.items():
        env[nm] = ex.fresh(t, 'lem.' + nm, st)
    return env


def induction_on_seq(ex, prop, name, vars_, stmt, on, extra_hyps=(), hints=()):
    """forall vars. stmt, by structural induction on sequence variable `on`
    (base: on == [];  step: on != [] and stmt[on := on[1:]] (for all other vars) ==> stmt).
    The induction hypothesis is instantiated for the *same* values of the other variables
    plus any (var -> spec text) re-bindings given in extra_hyps."""
    obls = []
    st = State()
    env = _env(ex, st, vars_)
    s = env[on]
    # base
    senv = SpecEnv(st, dict(env))
    goal = ex.spec.bool(stmt, senv)
    side = list(ex.spec.side)
    ex.spec.side = []
    obls.append(Obl(prop, 'lemma.' + name, 'base', '-', [z3.Length(s.t) == 0] + side, goal, 'lemma'))
    # step
    tail = VSeq(z3.SubSeq(s.t, 1, z3.Length(s.t) - 1), s.etype)
    hyps = []
    env_h = dict(env)
    env_h[on] = tail
    hyps.append(ex.spec.bool(stmt, SpecEnv(st, env_h)))
    for rebinding in extra_hyps:
        e2 = dict(env_h)
        for k, text in rebinding.items():
            e2[k] = ex.spec.value(text, SpecEnv(st, dict(env)))
        hyps.append(ex.spec.bool(stmt, SpecEnv(st, e2)))
    # hints: intermediate facts, each proved on its own (from len(on) > 0) and then available to the step
    for i, h in enumerate(hints):
        hg = ex.spec.bool(h, SpecEnv(st, dict(env)))
        hside = list(ex.spec.side)
        ex.spec.side = []
        obls.append(Obl(prop, 'lemma.' + name, 'hint%d' % i, '-', [z3.Length(s.t) > 0] + hside, hg, 'lemma'))
        hyps.append(hg)
    goal = ex.spec.bool(stmt, SpecEnv(st, dict(env)))
    side = list(ex.spec.side)
    ex.spec.side = []
    obls.append(Obl(prop, 'lemma.' + name, 'step', '-', [z3.Length(s.t) > 0] + hyps + side, goal, 'lemma'))
    return obls


def induction_on_int(ex, prop, name, vars_, stmt, on, base=0):
    """forall vars with on >= base. stmt, by induction on the integer variable `on`
    (base: on == base;  step: on > base and stmt[on := on - 1] (same values of the other variables) ==> stmt)."""
    obls = []
    st = State()
    env = _env(ex, st, vars_)
    n = env[on]
    goal = ex.spec.bool(stmt, SpecEnv(st, dict(env)))
    side = list(ex.spec.side)
    ex.spec.side = []
    obls.append(Obl(prop, 'lemma.' + name, 'base', '-', [n.t == base] + side, goal, 'lemma'))
    env_h = dict(env)
    env_h[on] = VInt(n.t - 1)
    hyp = ex.spec.bool(stmt, SpecEnv(st, env_h))
    hside = list(ex.spec.side)
    ex.spec.side = []
    goal = ex.spec.bool(stmt, SpecEnv(st, dict(env)))
    side = list(ex.spec.side)
    ex.spec.side = []
    obls.append(Obl(prop, 'lemma.' + name, 'step', '-', [n.t > base, hyp] + hside + side, goal, 'lemma'))
    return obls


def direct(ex, prop, name, vars_, stmt, hyps=()):
    st = State()
    env = _env(ex, st, vars_)
    senv = SpecEnv(st, dict(env))
    hs = [ex.spec.bool(h, senv) for h in hyps]
    goal = ex.spec.bool(stmt, senv)
    side = list(ex.spec.side)
    ex.spec.side = []
    return [Obl(prop, 'lemma.' + name, 'direct', '-', hs + side, goal, 'lemma')]


def induction_on_str_right(ex, prop, name, vars_, stmt, on, hyps=(), hints=()):
    """forall vars. hyps ==> stmt, by induction on the byte string `on` from the right
    (base: on == b'';  step: on != b'' and (hyps ==> stmt)[on := on[:-1]] ==> stmt)."""
    obls = []
    st = State()
    env = _env(ex, st, vars_)
    d = env[on]
    senv = SpecEnv(st, dict(env))
    hs = [ex.spec.bool(h, senv) for h in hyps]
    goal = ex.spec.bool(stmt, senv)
    side = list(ex.spec.side)
    ex.spec.side = []
    obls.append(Obl(prop, 'lemma.' + name, 'base', '-', [z3.Length(d.t) == 0] + hs + side, goal, 'lemma'))
    env_h = dict(env)
    env_h[on] = VStr(z3.SubString(d.t, 0, z3.Length(d.t) - 1), d.kind)
    senv_h = SpecEnv(st, env_h)
    hs_h = [ex.spec.bool(h, senv_h) for h in hyps]
    ih = z3.Implies(z3.And(hs_h) if hs_h else z3.BoolVal(True), ex.spec.bool(stmt, senv_h))
    side_h = list(ex.spec.side)
    ex.spec.side = []
    assum = [z3.Length(d.t) > 0] + hs + [ih] + side_h
    for i, h in enumerate(hints):
        enum = None
        if isinstance(h, tuple):        # ('enum', text, python check over the finite domain, domain note)
            _, h, enum, note = h
        hg = ex.spec.bool(h, senv)
        hside = list(ex.spec.side)
        ex.spec.side = []
        ob = Obl(prop, 'lemma.' + name, 'hint%d' % i, '-', list(assum) + hside, hg, 'lemma')
        if enum is not None:
            # finite-domain fact decided by exhaustive enumeration in CPython (complete, not sampled)
            ok = bool(enum())
            ob.kind = 'enumerated'
            ob.verdict = 'unsat' if ok else 'sat'
            ob.backend = 'exhaustive enumeration: ' + note
        obls.append(ob)
        assum.append(hg)
    goal = ex.spec.bool(stmt, senv)
    side = list(ex.spec.side)
    ex.spec.side = []
    obls.append(Obl(prop, 'lemma.' + name, 'step', '-', assum + side, goal, 'lemma'))
    return obls
