"""z3-free helpers on contract clause text (shared with the native replay side)."""


def rewrite_implies(t):
    """`A ==> B` (lowest precedence, right associative) -> implies((A), (B)), at every paren level."""
    depth = 0
    i = 0
    instr = None
    while i < len(t):
        ch = t[i]
        if instr:
            if ch == '\\':
                i += 2
                continue
            if ch == instr:
                instr = None
        elif ch in '"\'':
            instr = ch
        elif ch in '([{':
            depth += 1
        elif ch in ')]}':
            depth -= 1
        elif depth == 0 and t.startswith('==>', i):
            return 'implies((%s), (%s))' % (rewrite_implies(t[:i].strip()), rewrite_implies(t[i + 3:].strip()))
        i += 1
    # no top-level implication: descend into parenthesised groups
    out = []
    i = 0
    instr = None
    while i < len(t):
        ch = t[i]
        if instr:
            out.append(ch)
            if ch == '\\' and i + 1 < len(t):
                out.append(t[i + 1])
                i += 2
                continue
            if ch == instr:
                instr = None
            i += 1
            continue
        if ch in '"\'':
            instr = ch
            out.append(ch)
            i += 1
            continue
        if ch == '(':
            d = 1
            j = i + 1
            ins = None
            while j < len(t) and d > 0:
                c2 = t[j]
                if ins:
                    if c2 == '\\':
                        j += 1
                    elif c2 == ins:
                        ins = None
                elif c2 in '"\'':
                    ins = c2
                elif c2 == '(':
                    d += 1
                elif c2 == ')':
                    d -= 1
                j += 1
            inner = t[i + 1:j - 1]
            if '==>' in inner:
                inner = ', '.join(rewrite_implies(part.strip()) for part in split_commas(inner))
            out.append('(' + inner + ')')
            i = j
            continue
        out.append(ch)
        i += 1
    return ''.join(out)




def split_commas(t):
    """split on commas at bracket depth 0 (outside string literals)"""
    parts, depth, cur, ins = [], 0, [], None
    i = 0
    while i < len(t):
        ch = t[i]
        if ins:
            cur.append(ch)
            if ch == '\\' and i + 1 < len(t):
                cur.append(t[i + 1])
                i += 2
                continue
            if ch == ins:
                ins = None
        elif ch in '"\'':
            ins = ch
            cur.append(ch)
        elif ch in '([{':
            depth += 1
            cur.append(ch)
        elif ch in ')]}':
            depth -= 1
            cur.append(ch)
        elif ch == ',' and depth == 0:
            parts.append(''.join(cur))
            cur = []
        else:
            cur.append(ch)
        i += 1
    parts.append(''.join(cur))
    return parts
