"""Check driver: ./check Cxx --tier quick|thorough

exit 0  every obligation discharged (known findings printed as KNOWN-FINDING lines)
exit 1  VIOLATION line(s): an obligation failed
exit 2  undecided (solver budgets exhausted) — never a VIOLATION
exit 3  STRUCTURE: function missing / outside subset / engine error / vacuity failure
"""
import argparse
import importlib
import json
import os
import subprocess
import sys
import time
import traceback

VERIF = os.path.dirname(os.path.dirname(os.path.abspath(__file__)))
REPO = os.environ.get('PYVC_REPO', '/repo')
# runs against a scratch copy (planted / seeded changes) must not overwrite the committed evidence
OUT = VERIF if os.path.realpath(REPO) == '/repo' else os.path.join(REPO, '.pyvc-out')
sys.path.insert(0, VERIF)
sys.path.insert(0, REPO)

import logging  # noqa: E402
logging.disable(logging.CRITICAL)      # the repository's own log output is not part of a check's output

import z3  # noqa: E402

from .engine import Registry, Unsupported, SpecError  # noqa: E402
from .execu import Exec  # noqa: E402
from . import verify, smt, findings  # noqa: E402


def clause_key(ob):
    return '%s/%s' % (ob.func, ob.clause)


def run_property(prop, tier, seed):
    t0 = time.time()
    mod = importlib.import_module('contracts.' + prop)
    reg = Registry()
    kf = findings.Known(prop)
    reg.kf = kf
    built = mod.build(reg)
    targets = [c for c in built if not c.assumed]
    ex = Exec(reg, prop=prop)
    budget = float(os.environ.get('PYVC_BUDGET', 45 if tier == 'quick' else 120))
    report = {'functions': [], 'structure_errors': [], 'lemmas': [], 'audits': [], 'bounded': []}
    allobl = []
    for c in targets:
        try:
            fr = verify.verify_function(ex, c, prop)
        except (Unsupported, SpecError) as e:
            report['structure_errors'].append('%s: %s' % (c.qualname, e))
            continue
        except Exception as e:      # engine bug: never a violation
            report['structure_errors'].append('%s: engine error %r\n%s' % (c.qualname, e, traceback.format_exc()[-1500:]))
            continue
        allobl += fr.obls
        report['functions'].append({'function': c.qualname, 'file': c.file, 'source_sha1': fr.hash,
                                    'source_lines': fr.source_lines, 'paths': fr.paths, 'exits': fr.exits,
                                    'obligations': len([o for o in fr.obls if o.kind != 'cover']),
                                    'symexec_s': round(fr.seconds, 2)})
        report['bounded'] += fr.bounded
    # lemmas (spec-level induction) and audits (AST scans) of the property module
    if hasattr(mod, 'lemmas'):
        try:
            allobl += mod.lemmas(reg, ex)
        except Exception as e:
            report['structure_errors'].append('lemmas: %r' % (e,))
    audit_fail = []
    if hasattr(mod, 'audits'):
        try:
            for name, ok, detail in mod.audits(reg, ex):
                report['audits'].append({'name': name, 'ok': bool(ok), 'detail': detail})
                if not ok:
                    audit_fail.append((name, detail))
        except Exception as e:
            report['structure_errors'].append('audits: %r' % (e,))
    planted = []
    if hasattr(mod, 'planted'):
        try:
            planted = mod.planted(reg, ex)
            allobl += planted
        except Exception as e:
            report['structure_errors'].append('planted: %r\n%s' % (e, traceback.format_exc()[-800:]))
    verify.discharge(allobl, budget=budget)
    bounded_results = []
    from . import guard
    limit = 900 if tier == 'quick' else 5400
    try:
        with guard.time_limit(limit):
            if hasattr(mod, 'bounded_checks'):
                try:
                    bounded_results = mod.bounded_checks(reg, tier, seed)
                except Exception as e:
                    report['structure_errors'].append('bounded_checks: %r\n%s' % (e, traceback.format_exc()[-800:]))
            if getattr(mod, 'CROSSCHECK', None):
                try:
                    from . import crosscheck
                    gens = mod.crosscheck_gens(reg) if hasattr(mod, 'crosscheck_gens') else None
                    bounded_results = list(bounded_results) + [crosscheck.crosscheck(reg, list(reg.contracts.values()), mod.CROSSCHECK, tier, seed, gens=gens)]
                except Exception as e:
                    report['structure_errors'].append('crosscheck: %r\n%s' % (e, traceback.format_exc()[-800:]))
    except guard.NativeTimeout:
        bounded_results = list(bounded_results) + [{
            'name': 'native bounded checks (watchdog)', 'bounded': True, 'bound': '%d s' % limit, 'cases': 0,
            'violations': [{'what': 'the native sweep of the real code did not finish within %d s (it takes well under a tenth of that '
                                    'on the reference tree): the code under test does not terminate on a swept input' % limit,
                            'where': traceback.format_exc()[-600:]}]}]
    report['obls'] = allobl
    report['planted'] = planted
    report['audit_fail'] = audit_fail
    report['bounded_results'] = bounded_results
    report['ex'] = ex
    report['reg'] = reg
    report['kf'] = kf
    report['mod'] = mod
    report['wall'] = time.time() - t0
    report['budget'] = budget
    return report


def summarise(prop, tier, seed, rep):
    obls = rep['obls']
    planted_ids = set(id(o) for o in rep['planted'])
    real = [o for o in obls if id(o) not in planted_ids]
    proofs = [o for o in real if o.kind != 'cover']
    covers = [o for o in real if o.kind == 'cover']
    by_clause = {}
    for o in proofs:
        by_clause.setdefault(clause_key(o), []).append(o)
    failed = {}
    undecided = {}
    for k, lst in by_clause.items():
        st = [verify.status(o) for o in lst]
        if lst and lst[0].kind == 'subset':
            if any(x != 'proved' for x in st):
                rep['structure_errors'].append('%s: a path leaves the accepted subset (%s)' % (lst[0].func, lst[0].clause))
            continue
        if 'failed' in st:
            failed[k] = [o for o in lst if verify.status(o) == 'failed']
        elif 'failed-unconfirmed' in st:
            # z3 said sat, cvc5 could not confirm: a violation only if the model replays natively
            obs = [o for o in lst if verify.status(o) == 'failed-unconfirmed']
            ok, _ = try_replay(prop, k, obs, rep)
            if ok:
                failed[k] = obs
            else:
                undecided[k] = obs
        elif 'undecided' in st:
            undecided[k] = [o for o in lst if verify.status(o) == 'undecided']
    if os.environ.get('PYVC_DUMP_FAILED'):
        dd = os.environ['PYVC_DUMP_FAILED']
        os.makedirs(dd, exist_ok=True)
        for k, lst in failed.items():
            for oi, o in enumerate(lst[:3]):
                with open(os.path.join(dd, '%s__%d.smt2' % (k.replace('/', '__'), oi)), 'w') as f:
                    f.write('; path %s\n' % o.path)
                    f.write(smt.to_smt2(list(o.assumptions) + [z3.Not(o.goal)]))
    vac = []
    for o in covers:
        if o.clause == 'vacuity.pre-satisfiable' and verify.status(o) == 'dead':
            vac.append('%s: precondition not shown satisfiable (%s)' % (o.func, o.verdict))
    if not proofs:
        vac.append('zero obligations generated')
    # every function with normal-exit postconditions must have at least one feasible normal exit
    by_func = {}
    for o in covers:
        if o.clause == 'vacuity.path-feasible' and o.meta.get('exit') == 'normal':
            by_func.setdefault(o.func, []).append(verify.status(o))
    for fn in set(o.func for o in proofs if o.kind == 'post'):
        sts = by_func.get(fn, [])
        if not sts or all(x == 'dead' for x in sts):
            vac.append('%s: no feasible normal exit (postconditions hold vacuously)' % fn)
    for o in rep['planted']:
        pass
    planted_by = {}
    for o in rep['planted']:
        planted_by.setdefault(clause_key(o), []).append(verify.status(o))
    for k, sts in planted_by.items():
        if 'failed' not in sts:
            vac.append('planted false clause %s was not refuted (%s)' % (k, sorted(set(sts))))
    return real, proofs, covers, by_clause, failed, undecided, vac


def write_replay(prop, key, obs, rep, extra=None):
    d = os.path.join(OUT, 'replay', prop)
    os.makedirs(d, exist_ok=True)
    safe = key.replace('/', '__').replace(' ', '_')
    path = os.path.join(d, safe + '.json')
    doc = {'property': prop, 'obligation': '%s/%s' % (prop, key), 'paths': []}
    for o in obs[:6]:
        doc['paths'].append({'path': o.path, 'verdict': o.verdict, 'backend': o.backend,
                             'model': {k: (v if isinstance(v, (int, str, bool, list)) else repr(v))
                                       for k, v in (o.model or {}).items()},
                             'solver_output': {k: v[-1500:] for k, v in o.outputs.items()},
                             'meta': o.meta})
    if extra:
        doc.update(extra)
    with open(path, 'w') as f:
        json.dump(doc, f, indent=1, default=repr)
    return path


def try_replay(prop, key, obs, rep):
    """Ask the property module to replay a counter-model on the real code.
    returns (reproduced: bool, detail dict)"""
    mod = rep['mod']
    if not hasattr(mod, 'replay'):
        return False, {'replay': 'no native replay harness for this obligation'}
    for o in obs[:8]:
        try:
            r = mod.replay(o, rep['reg'])
        except Exception as e:
            r = {'reproduced': False, 'error': repr(e)}
        if r and r.get('reproduced'):
            return True, r
    return False, r or {}


def main(argv=None):
    ap = argparse.ArgumentParser()
    ap.add_argument('prop')
    ap.add_argument('--tier', default=os.environ.get('VERIF_TIER', 'quick'))
    ap.add_argument('--replay')
    ap.add_argument('--update-ledger', action='store_true')
    a = ap.parse_args(argv)
    seed = int(os.environ.get('VERIF_SEED', '0') or 0)
    prop = a.prop
    if a.replay:
        return replay_file(a.replay)
    t0 = time.time()
    try:
        rep = run_property(prop, a.tier, seed)
    except Exception as e:
        print('STRUCTURE: %s engine failure %r' % (prop, e))
        traceback.print_exc()
        smt.cleanup()
        return 3
    real, proofs, covers, by_clause, failed, undecided, vac = summarise(prop, a.tier, seed, rep)
    kf = rep['kf']
    ledger_path = os.path.join(VERIF, 'ledger', prop + '.json')
    ledger = {}
    if os.path.exists(ledger_path):
        ledger = json.load(open(ledger_path))
    violations = []
    lines = []
    # known findings still present on this tree
    for f in kf.active_findings():
        lines.append('KNOWN-FINDING: property=%s %s: %s' % (prop, f['id'], f['what']))
    for key, obs in sorted(failed.items()):
        reproduced, detail = try_replay(prop, key, obs, rep)
        path = write_replay(prop, key, obs, rep, {'replay_result': detail})
        if reproduced:
            lines.append('VIOLATION property=%s replay=%s' % (prop, path))
        else:
            lines.append('VIOLATION property=%s replay=%s obligation=%s/%s no-failing-input-found' % (prop, path, prop, key))
        violations.append(key)
    for name, detail in rep['audit_fail']:
        path = write_replay(prop, 'audit__' + name, [], rep, {'audit': name, 'detail': detail})
        lines.append('VIOLATION property=%s replay=%s obligation=%s/audit/%s no-failing-input-found' % (prop, path, prop, name))
        violations.append('audit/' + name)
    for br in rep['bounded_results']:
        if br.get('violations'):
            for vi, v in enumerate(br['violations'][:3]):
                path = write_replay(prop, 'bounded__%s__%d' % (br['name'][:60], vi), [], rep, {'bounded_check': br['name'], 'witness': v})
                lines.append('VIOLATION property=%s replay=%s' % (prop, path))
                violations.append('bounded/' + br['name'])
    status = 0
    if violations:
        status = 1
    elif rep['structure_errors'] or vac:
        status = 3
    elif undecided:
        status = 2
    for b in sorted(set(rep['bounded'])):
        if 'invariant' in b:
            lines.append('NOTE: %s bounded fallback: %s' % (prop, b[:200]))
    for d_ in sorted(set(rep['ex'].dropped)):
        if 'not modelled' in d_[2]:
            lines.append('NOTE: %s %s:%d %s' % (prop, d_[0], d_[1], d_[2][:160]))
    for e in rep['structure_errors']:
        lines.append('STRUCTURE: %s %s' % (prop, e.split('\n')[0]))
    for v in vac:
        lines.append('STRUCTURE: %s vacuity: %s' % (prop, v))
    for k in sorted(undecided):
        lines.append('UNDECIDED: %s/%s (%d paths) budget=%ss' % (prop, k, len(undecided[k]), rep['budget']))
        if os.environ.get('PYVC_DUMP_UNDECIDED'):
            os.makedirs(os.environ['PYVC_DUMP_UNDECIDED'], exist_ok=True)
            for oi, o in enumerate(undecided[k]):
                fn = os.path.join(os.environ['PYVC_DUMP_UNDECIDED'], '%s__%d.smt2' % (k.replace('/', '__'), oi))
                with open(fn, 'w') as f:
                    f.write('; path %s\n; trace %s\n' % (o.path, ' | '.join(str(t) for t in o.meta.get('trace', []))[:3000]))
                    f.write(smt.to_smt2(list(o.assumptions) + [z3.Not(o.goal)]))
                lines.append('  dumped %s (path %s)' % (fn, o.path))
    # ledger: clauses proved on the reference tree
    # the ledger pins contract clauses (not path-dependent side obligations such as no-escape.* or
    # call-site / bit-range conditions, whose presence depends on which paths exist)
    stable = set(clause_key(o) for o in proofs if o.kind in ('post', 'raise-post', 'lemma', 'hint', 'cases'))
    proved_now = sorted(k for k in by_clause if k in stable and k not in failed and k not in undecided)
    if a.update_ledger:
        os.makedirs(os.path.dirname(ledger_path), exist_ok=True)
        json.dump({'proved': proved_now}, open(ledger_path, 'w'), indent=1)
    missing = [k for k in ledger.get('proved', []) if k not in by_clause]
    if missing and status == 0 and not a.update_ledger:
        status = 3
        for k in missing[:10]:
            lines.append('STRUCTURE: %s obligation %s of the reference ledger was not generated' % (prop, k))
    write_evidence(prop, a.tier, seed, rep, proofs, covers, by_clause, failed, undecided, violations,
                   time.time() - t0, lines)
    for ln in lines:
        print(ln)
    n_ok = len([o for o in proofs if verify.status(o) == 'proved'])
    print('%s: %d functions, %d clauses, %d/%d path obligations discharged, %d covers, %.1fs, exit %d' % (
        prop, len(rep['functions']), len(by_clause), n_ok, len(proofs), len(covers), time.time() - t0, status))
    smt.cleanup()
    return status


def write_evidence(prop, tier, seed, rep, proofs, covers, by_clause, failed, undecided, violations, wall, lines):
    ex = rep['ex']
    reg = rep['reg']
    backends = {}
    secs = {}
    for o in proofs:
        b = o.backend or 'none'
        backends[b] = backends.get(b, 0) + 1
        secs[b] = secs.get(b, 0.0) + o.seconds
    samples = []
    seen = set()
    for o in proofs:
        k = clause_key(o)
        if k in seen:
            continue
        seen.add(k)
        if len(samples) < 12:
            samples.append({'obligation': '%s/%s' % (prop, k), 'path': o.path, 'kind': o.kind,
                            'assumptions': len(o.assumptions), 'goal': str(o.goal)[:300],
                            'verdict': verify.status(o), 'backend': o.backend, 'seconds': round(o.seconds, 3)})
    assumed = sorted(q for q, c in reg.contracts.items() if c.assumed and q in ex.used_contracts)
    n_ok = len([o for o in proofs if verify.status(o) == 'proved'])
    level = getattr(rep['mod'], 'LEVEL', 'proof')
    cov = {
        'obligations': len(proofs),
        'discharged': n_ok,
        'clauses': len(by_clause),
        'clauses_failed': sorted(failed),
        'clauses_undecided': sorted(undecided),
        'checker_cmd': 'python3-vt -m pyvc.run %s --tier %s  (z3 %s / cvc5 as subprocesses, budget %ss per obligation)' % (
            prop, tier, z3.get_version_string(), rep['budget']),
        'trusted_base': ['pyvc symbolic executor + Python-semantics encoding (DESIGN.md 2.2)', 'z3 5.1', 'cvc5 1.0.3',
                         'CPython ast module'] + ['assumed contract: ' + q for q in assumed],
        'functions_under_contract': rep['functions'],
        'inlined_real_helpers': sorted(ex.inlined),
        'assumed_contracts_used': assumed,
        'backend_counts': backends,
        'solver_seconds': {k: round(v, 2) for k, v in secs.items()},
        'covers': {'total': len(covers), 'covered': len([o for o in covers if verify.status(o) == 'covered']),
                   'dead_paths': len([o for o in covers if verify.status(o) == 'dead'])},
        'planted_false_clauses_refuted': len(set(clause_key(o) for o in rep['planted'] if verify.status(o) == 'failed')),
        'audits': rep['audits'],
        'bounded_checks': rep['bounded_results'] + [{'name': b, 'bounded': True} for b in rep['bounded']],
        'dropped_statements': ['%s:%d %s' % d for d in sorted(set(ex.dropped))][:80],
        'known_findings_printed': [l for l in lines if l.startswith('KNOWN-FINDING')],
        'structure_errors': rep['structure_errors'],
        'samples': samples,
        'explanation': getattr(rep['mod'], 'EXPLANATION', ''),
    }
    doc = {'property_id': prop, 'tier': tier if tier in ('quick', 'thorough') else 'quick', 'seed': seed,
           'level': level, 'coverage': cov,
           'assumptions': list(reg.assumptions) + list(getattr(rep['mod'], 'ASSUMPTIONS', [])) +
           ['A-ATOM: await is a call (handlers never suspend)', 'A-VIEW: memoryviews are immutable byte strings',
            'A-ASSERT: assert statements are enabled', 'A-LOG: logging calls (and their arguments) are dropped',
            'E-EXC: environment exceptions are enumerated by representative classes'],
           'wall_s': round(wall, 2), 'violations': len(violations)}
    os.makedirs(os.path.join(OUT, 'evidence'), exist_ok=True)
    with open(os.path.join(OUT, 'evidence', prop + '.json'), 'w') as f:
        json.dump(doc, f, indent=1, default=repr)


def replay_file(path):
    doc = json.load(open(path))
    print(json.dumps(doc, indent=1)[:4000])
    return 0


if __name__ == '__main__':
    sys.exit(main())
