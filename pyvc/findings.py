"""Known findings: /verif/known_findings.json, committed, never written at run time.

entry: {id, property: [..], status: open|fixed, commit, what, witness: 'findings/Fxx.py',
        carve_out: free text naming the excluded input class}
An open finding is *active* when its native witness still fails on the tree under
check (exit 1).  Contract modules ask kf.active('F1') to narrow exactly the
clauses that finding explains; a fixed entry suppresses nothing."""
import json
import os
import subprocess

VERIF = os.path.dirname(os.path.dirname(os.path.abspath(__file__)))
REPO = os.environ.get('PYVC_REPO', '/repo')
NATIVE = os.environ.get('PYVC_NATIVE_PY', '/venv/bin/python')


class Known(object):
    def __init__(self, prop):
        self.prop = prop
        p = os.path.join(VERIF, 'known_findings.json')
        self.entries = json.load(open(p))['findings'] if os.path.exists(p) else []
        self._active = {}

    def mine(self):
        return [e for e in self.entries if self.prop in e.get('property', [])]

    def run_witness(self, e):
        w = e.get('witness')
        if not w:
            return None
        env = dict(os.environ)
        env['PYTHONPATH'] = REPO
        try:
            p = subprocess.run([NATIVE, os.path.join(VERIF, w)], cwd=REPO, env=env, timeout=120,
                               stdout=subprocess.PIPE, stderr=subprocess.STDOUT, text=True)
            return p.returncode, p.stdout[-1500:]
        except subprocess.TimeoutExpired:
            return None

    def active(self, fid):
        """True iff finding fid is open and its witness still demonstrates the defect."""
        if fid in self._active:
            return self._active[fid]
        r = False
        for e in self.entries:
            if e['id'] == fid and e.get('status') == 'open':
                w = self.run_witness(e)
                r = bool(w and w[0] == 1)
        self._active[fid] = r
        return r

    def active_findings(self):
        return [e for e in self.mine() if e.get('status') == 'open' and self.active(e['id'])]
