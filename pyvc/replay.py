"""Counter-model -> concrete case -> native replay on the real code (CPython, /venv)."""
import json
import os
import re
import subprocess
import tempfile

VERIF = os.path.dirname(os.path.dirname(os.path.abspath(__file__)))
REPO = os.environ.get('PYVC_REPO', '/repo')
NATIVE = os.environ.get('PYVC_NATIVE_PY', '/venv/bin/python')


def clean(name):
    name = name.strip('|')
    return re.sub(r'!\d+$', '', name)


def enc(v):
    """model value -> JSON-able; strings are latin-1 code points (mod 256)"""
    if isinstance(v, str):
        return {'b': [ord(c) % 256 for c in v]}
    if isinstance(v, list):
        return [enc(x) for x in v]
    if isinstance(v, (bool, int)):
        return v
    return {'unparsed': repr(v)}


def case_from_obl(ob, contract, factory, clauses=None):
    model = {clean(k): v for k, v in (ob.model or {}).items()}
    raw = {k.strip('|'): v for k, v in (ob.model or {}).items()}
    env = []
    for e in ob.meta.get('env', []):
        if 'raise' in e:
            env.append({'call': e['call'], 'raise': e['raise']})
        else:
            vals = [enc(raw.get(n)) for n in e['ret']]
            env.append({'call': e['call'], 'ret': vals})
    if clauses is None:
        clauses = [(ob.clause, dict(contract.ensures + contract.inv + sum(contract.raises.values(), [])).get(ob.clause))]
    return {'file': contract.file, 'qualname': contract.qualname, 'factory': factory,
            'model': {k: enc(v) for k, v in model.items()}, 'env': env,
            'clauses': [c for c in clauses if c[1]], 'kind': ob.kind, 'meta_exception': ob.meta.get('exception'),
            'requires': [t for _, t in contract.requires + contract.inv]}


def run_case(case):
    d = tempfile.mkdtemp(prefix='pyvc-replay-')
    p = os.path.join(d, 'case.json')
    json.dump(case, open(p, 'w'))
    env = dict(os.environ)
    env['PYTHONPATH'] = REPO + os.pathsep + VERIF
    try:
        r = subprocess.run([NATIVE, os.path.join(VERIF, 'replay', 'native.py'), p], cwd=REPO, env=env,
                           stdout=subprocess.PIPE, stderr=subprocess.PIPE, text=True, timeout=120)
        out = r.stdout.strip().split('\n')[-1] if r.stdout.strip() else ''
        try:
            res = json.loads(out)
        except ValueError:
            res = {'reproduced': False, 'error': (r.stdout + r.stderr)[-800:]}
    except subprocess.TimeoutExpired:
        res = {'reproduced': False, 'error': 'native replay timed out'}
    finally:
        import shutil
        shutil.rmtree(d, ignore_errors=True)
    cj = json.dumps(case)
    res['case'] = case if len(cj) < 20000 else {'note': 'case too large to embed (%d bytes)' % len(cj),
                                                 'qualname': case['qualname'], 'env': case['env'],
                                                 'model_sizes': {k: (len(v['b']) if isinstance(v, dict) and 'b' in v else v)
                                                                 for k, v in case['model'].items()
                                                                 if not isinstance(v, list)}}
    return res
