"""Call handling: builtins, primitive methods, container methods, extern
models, inlining of real helpers, and calls through contracts."""
import ast
import inspect
import textwrap

import z3

from .vals import *          # noqa: F401,F403
from .engine import (Unsupported, SpecError, SpecEnv, State, Frame, truthy, from_py, veq, as_seq,
                     merge_vals, dict_has, dict_get, is_none, fresh_name, fresh_term,
                     relpath_of_module, str_method_pure, REPO)
from .execu import MAX_INLINE_DEPTH, zero_of


def ann_to_type(a):
    """typing annotation AST -> type descriptor (None when unknown)."""
    if a is None:
        return None
    if isinstance(a, ast.Constant) and isinstance(a.value, str):
        try:
            return ann_to_type(ast.parse(a.value, mode='eval').body)
        except SyntaxError:
            return None
    if isinstance(a, ast.Constant) and a.value is None:
        return 'none'
    if isinstance(a, ast.Name):
        return {'int': 'int', 'bool': 'bool', 'bytes': 'bytes', 'str': 'str', 'memoryview': 'mv',
                'float': 'int', 'None': 'none'}.get(a.id)
    if isinstance(a, ast.Subscript):
        base = a.value.id if isinstance(a.value, ast.Name) else getattr(a.value, 'attr', None)
        sl = a.slice
        if base == 'Optional':
            t = ann_to_type(sl)
            return ('opt', t) if t else None
        if base in ('List', 'list'):
            t = ann_to_type(sl)
            return ('list', t) if t else None
        if base in ('Dict', 'dict') and isinstance(sl, ast.Tuple):
            k, v = ann_to_type(sl.elts[0]), ann_to_type(sl.elts[1])
            return ('dict', k, v) if k and v else None
        if base in ('Tuple', 'tuple') and isinstance(sl, ast.Tuple):
            ts = [ann_to_type(e) for e in sl.elts]
            return ('tuple',) + tuple(ts) if all(ts) else None
        if base == 'Union' and isinstance(sl, ast.Tuple):
            ts = [ann_to_type(e) for e in sl.elts]
            if set(ts) <= {'bytes', 'mv'}:
                return 'bytes'
    return None


# ------------------------------------------------------------------ entry

def eval_call(ex, n, st, fr):
    f = n.func
    # A-LOG: logging calls are dropped together with their argument expressions
    if ex._is_log_call(n):
        ex.dropped.append((fr.relpath, n.lineno, 'log call'))
        return ex.val(NONE, st)
    if isinstance(f, ast.Name) and f.id == 'cast':
        return ex.eval(n.args[1], st, fr)
    if isinstance(f, ast.Name) and f.id == 'super':
        raise Unsupported('bare super() value')
    # super().m(...)
    if isinstance(f, ast.Attribute) and isinstance(f.value, ast.Call) and \
            isinstance(f.value.func, ast.Name) and f.value.func.id == 'super':
        return call_super(ex, n, st, fr)
    if any(isinstance(a, ast.Starred) for a in n.args) or any(k.arg is None for k in n.keywords):
        return call_starred(ex, n, st, fr)

    def with_callee(callee, s):
        nodes = list(n.args) + [k.value for k in n.keywords]

        def with_args(vs, s2):
            args = vs[:len(n.args)]
            kwargs = {k.arg: v for k, v in zip(n.keywords, vs[len(n.args):])}
            return dispatch(ex, callee, args, kwargs, s2, fr, n)
        return ex.bind(ex.eval_list(nodes, s), with_args)
    return ex.bind(ex.eval(f, st, fr), with_callee)


def call_starred(ex, n, st, fr):
    raise Unsupported('*args / **kwargs call at %s:%d' % (fr.relpath, n.lineno))


def call_super(ex, n, st, fr):
    meth = n.func.attr
    selfv = st.env.get('self')
    if selfv is None or fr.pycls is None:
        raise Unsupported('super() outside a method')
    rt = st.heap[selfv.ref].pycls
    mro = list(rt.__mro__)
    i = mro.index(fr.pycls)
    target = None
    for k in mro[i + 1:]:
        if meth in k.__dict__:
            target = k
            break
    if target is None:
        raise Unsupported('super().%s not found' % meth)
    nodes = list(n.args) + [k.value for k in n.keywords]

    def with_args(vs, s2):
        args = vs[:len(n.args)]
        kwargs = {k.arg: v for k, v in zip(n.keywords, vs[len(n.args):])}
        fn = target.__dict__[meth]
        return call_method_resolved(ex, target, meth, fn, selfv, args, kwargs, s2, fr)
    return ex.bind(ex.eval_list(nodes, st), with_args)


def dispatch(ex, callee, args, kwargs, st, fr, n):
    if isinstance(callee, VPy):
        obj = callee.obj
        if isinstance(obj, tuple) and obj and obj[0] == 'boundmethod':
            _, recv, meth = obj
            h = st.heap[recv.ref]
            if h.pycls is None:
                return call_contract_named(ex, '%s.%s' % (h.cls, meth), recv, args, kwargs, st, fr)
            owner = ex.owner_of(h.pycls, meth)
            fn = inspect.getattr_static(h.pycls, meth)
            return call_method_resolved(ex, owner, meth, fn, recv, args, kwargs, st, fr)
        if isinstance(obj, tuple) and obj and obj[0] == 'contmethod':
            h = st.heap[obj[1].ref]
            if isinstance(h, HList):
                return list_method(ex, obj[1], obj[2], args, kwargs, st, fr)
            return dict_method(ex, obj[1], obj[2], args, kwargs, st, fr)
        if isinstance(obj, tuple) and obj and obj[0] == 'primmethod':
            return prim_method(ex, obj[1], obj[2], args, kwargs, st, fr, n)
        if isinstance(obj, tuple) and obj and obj[0] == 'opaquemethod':
            _, recv, meth = obj
            return call_contract_named(ex, '%s.%s' % (recv.cls, meth), recv, args, kwargs, st, fr)
        return call_pyobj(ex, obj, args, kwargs, st, fr, n)
    if isinstance(callee, VRef):
        raise Unsupported('calling an object')
    raise Unsupported('call of %r at %s:%d' % (callee, fr.relpath, n.lineno))


# ------------------------------------------------------------------ python objects (builtins, modules, repo functions)

def call_pyobj(ex, obj, args, kwargs, st, fr, n):
    import builtins as _b
    name = getattr(obj, '__name__', None)
    mod = getattr(obj, '__module__', None)
    dotted = '%s.%s' % (mod, getattr(obj, '__qualname__', name))
    if dotted in ex.reg.externs:
        return ex.reg.externs[dotted](ex, st, args, kwargs, fr)
    if obj is _b.len:
        return b_len(ex, args[0], st)
    if obj is _b.isinstance:
        return b_isinstance(ex, args[0], args[1], st)
    if obj is _b.bool:
        return ex.val(VBool(truthy(args[0], st)), st)
    if obj is _b.memoryview:
        v = args[0]
        if isinstance(v, VStr):
            return ex.val(VStr(v.t, 'mv'), st)
    if obj is _b.bytes:
        if not args:
            return ex.val(VStr(b'', 'bytes'), st)
        v = args[0]
        if isinstance(v, VStr) and v.kind in ('bytes', 'mv'):
            return ex.val(VStr(v.t, 'bytes'), st)
        if isinstance(v, VRef) and isinstance(st.heap[v.ref], HBytes):
            return ex.val(VStr(st.heap[v.ref].t, 'bytes'), st)
    if obj is _b.bytearray:
        v = args[0]
        if isinstance(v, VStr) and v.kind in ('bytes', 'mv'):
            return ex.val(st.alloc(HBytes(v.t)), st)
    if obj is _b.int:
        return b_int(ex, args, kwargs, st)
    if obj is _b.str:
        v = args[0]
        if isinstance(v, VOpt):
            return ex.branch(v.isnone, st, lambda s: ex.val(VStr('None', 'str'), s),
                             lambda s: call_pyobj(ex, obj, [v.val] + args[1:], kwargs, s, fr, n))
        if isinstance(v, VNone):
            return ex.val(VStr('None', 'str'), st)
        if isinstance(v, VInt):
            return ex.val(VStr(int_to_dec(ex, v.t), 'str'), st)
        if isinstance(v, VStr) and v.kind == 'str':
            return ex.val(v, st)
        return ex.val(VStr(z3.String(fresh_name('str')), 'str'), st)
    if obj is _b.repr:
        return ex.val(VStr(z3.String(fresh_name('repr')), 'str'), st)
    if obj is _b.range:
        return ex.val(VPy(('range', args)), st)
    if obj is _b.list and not args:
        return ex.val(st.alloc(HList(None, None)), st)
    if obj is _b.list and args:
        if isinstance(args[0], VRef) and isinstance(st.heap[args[0].ref], HList) and st.heap[args[0].ref].seq is None:
            return ex.val(st.alloc(HList(None, None)), st)
        s, et = as_seq(args[0], st)
        return ex.val(st.alloc(HList(et, s)), st)
    if obj is _b.set and not args:
        return ex.val(st.alloc(HList(None, None)), st)
    if obj is _b.min or obj is _b.max:
        if len(args) == 2 and all(isinstance(a, VInt) for a in args):
            f = zmin if obj is _b.min else zmax
            return ex.val(VInt(f(args[0].t, args[1].t)), st)
    if isinstance(obj, type) and issubclass(obj, BaseException):
        return ex.val(VExc(obj), st)
    # repository functions and classes
    if inspect.ismethod(obj) and isinstance(obj.__self__, type) and (obj.__module__ or '').startswith('proxy'):
        q = '%s.%s' % (ex.owner_of(obj.__self__, obj.__name__).__name__, obj.__name__)
        c = ex.reg.contracts.get(q)
        if c is not None:
            return call_contract(ex, c, None, None, None, args, kwargs, st, fr)
        return call_function(ex, obj.__func__, [VPy(obj.__self__)] + args, kwargs, st, fr, what=q,
                             owner=ex.owner_of(obj.__self__, obj.__name__))
    if inspect.isfunction(obj) and (mod or '').startswith('proxy'):
        q = obj.__qualname__
        return call_function(ex, obj, args, kwargs, st, fr, what=q)
    if isinstance(obj, type) and (obj.__module__ or '').startswith('proxy'):
        return construct(ex, obj, args, kwargs, st, fr)
    raise Unsupported('call of python object %s at %s:%d (no extern model)' % (dotted, fr.relpath, n.lineno))


def b_len(ex, v, st):
    if isinstance(v, VOpt):
        return ex.branch(v.isnone, st, lambda s: ex.exc(TypeError, s), lambda s: b_len(ex, v.val, s))
    if isinstance(v, VNone):
        return ex.exc(TypeError, st)
    if isinstance(v, VStr):
        return ex.val(VInt(z3.Length(v.t)), st)
    if isinstance(v, VTuple):
        return ex.val(VInt(len(v.items)), st)
    if isinstance(v, VRef):
        h = st.heap[v.ref]
        if isinstance(h, HBytes):
            return ex.val(VInt(z3.Length(h.t)), st)
        if isinstance(h, HList):
            return ex.val(VInt(0 if h.seq is None else z3.Length(h.seq)), st)
        if isinstance(h, HDict):
            return ex.val(VInt(0 if h.keys is None else z3.Length(h.keys)), st)
    if isinstance(v, VSeq):
        return ex.val(VInt(z3.Length(v.t)), st)
    raise Unsupported('len of %r' % (v,))


PY_KIND = {int: ('int',), bool: ('bool',), bytes: ('bytes',), str: ('str',), memoryview: ('mv',)}


def b_isinstance(ex, v, k, st):
    import builtins as _b
    classes = []
    if isinstance(k, VPy) and isinstance(k.obj, type):
        classes = [k.obj]
    elif isinstance(k, VTuple):
        classes = [x.obj for x in k.items]
    else:
        raise Unsupported('isinstance class %r' % (k,))

    def static(v):
        if isinstance(v, VBool):
            return any(c in (bool, int) for c in classes)
        if isinstance(v, VInt):
            return any(c is int for c in classes)
        if isinstance(v, VStr):
            pk = {'bytes': bytes, 'str': str, 'mv': memoryview}[v.kind]
            return any(c is pk for c in classes)
        if isinstance(v, VNone):
            return any(c is type(None) for c in classes)
        if isinstance(v, VTuple):
            return any(c is tuple for c in classes)
        if isinstance(v, VRef):
            h = st.heap[v.ref]
            if isinstance(h, HObj) and h.pycls is not None:
                return any(issubclass(h.pycls, c) for c in classes)
            if isinstance(h, HList):
                return any(c is list for c in classes)
            if isinstance(h, HDict):
                return any(c is dict for c in classes)
        if isinstance(v, VExc):
            return any(issubclass(v.cls, c) for c in classes)
        if isinstance(v, VPy):
            return isinstance(v.obj, tuple(classes))
        if isinstance(v, VOpaque):
            pc = ex.reg.pyclass(v.cls)
            if pc is not None:
                if any(issubclass(pc, c) for c in classes):
                    return True
                subs = [c for c in classes if issubclass(c, pc)]
                if subs:
                    # the object may be an instance of a subclass: symbolic, via isinst_<Class>(object)
                    from .engine import SpecFun
                    terms = []
                    for c in subs:
                        nm = 'isinst_' + c.__name__
                        if nm not in ex.reg.specfuns:
                            ex.reg.specfuns[nm] = SpecFun(nm, [('opaque', v.cls)], 'bool')
                        terms.append(ex.reg.specfuns[nm].apply(v.ident))
                    return z3.Or(terms) if len(terms) > 1 else terms[0]
                return False
        raise Unsupported('isinstance(%r)' % (v,))
    def asbool(x):
        return x if z3.is_expr(x) else z3.BoolVal(bool(x))
    if isinstance(v, VOpt):
        nn = any(c is type(None) for c in classes)
        sv = static(v.val)
        if not z3.is_expr(sv) and nn == sv:
            return ex.val(VBool(bool(sv)), st)
        return ex.val(VBool(z3.If(v.isnone, z3.BoolVal(nn), asbool(sv))), st)
    return ex.val(VBool(asbool(static(v))), st)


def int_to_dec(ex, t):
    """str(n) for an int term: exact for n >= 0 via int.to.str; negative handled."""
    return z3.If(t >= 0, z3.IntToStr(t), z3.Concat(z3.StringVal('-'), z3.IntToStr(-t)))


def b_int(ex, args, kwargs, st):
    v = args[0]
    base = 10
    if len(args) > 1:
        base = const_int(args[1].t)
    if isinstance(v, VInt):
        return ex.val(v, st)
    if isinstance(v, VBool):
        return ex.val(VInt(z3.If(v.t, 1, 0)), st)
    if isinstance(v, VOpt):
        return ex.branch(v.isnone, st, lambda s: ex.exc(TypeError, s),
                         lambda s: b_int(ex, [v.val] + args[1:], kwargs, s))
    if isinstance(v, VStr):
        nm = 'int_dec' if base == 10 else 'int_hex'
        ok_nm = nm + '_ok'
        if nm in ex.reg.specfuns:
            ok = ex.reg.specfuns[ok_nm].apply(v.t)
            r = ex.reg.specfuns[nm].apply(v.t)
            return ex.branch(ok, st, lambda s: ex.val(VInt(r), s), lambda s: ex.exc(ValueError, s))
        raise Unsupported('int(bytes) needs spec functions %s/%s' % (nm, ok_nm))
    raise Unsupported('int(%r)' % (v,))


# ------------------------------------------------------------------ primitive methods

def prim_method(ex, o, m, args, kwargs, st, fr, n):
    if isinstance(o, VStr):
        return str_method(ex, o, m, args, kwargs, st, fr, n)
    if isinstance(o, VTuple):
        raise Unsupported('tuple method %s' % m)
    raise Unsupported('method %s on %r' % (m, o))


def str_method(ex, o, m, args, kwargs, st, fr, n):
    if m == 'tobytes':
        return ex.val(VStr(o.t, 'bytes'), st)
    if m in ('startswith', 'endswith', 'find'):
        return ex.val(str_method_pure(o, m, args, ex.reg), st)
    if m in ('strip', 'lstrip', 'rstrip') and (not args or const_str(args[0].t) is not None) \
            and not (m in ex.reg.specfuns and not args):
        return str_strip(ex, o, m, (const_str(args[0].t) if args else WS_BYTES), st)
    if m in ('lower', 'upper', 'strip'):
        if m in ex.reg.specfuns and not args:
            sf = ex.reg.specfuns[m]
            terms = [o.t]
            if sf.unfold is not None:
                for ax in sf.unfold(*terms):
                    st.assume(ax)
            return ex.val(VStr(sf.apply(*terms), o.kind), st)
        raise Unsupported('str.%s needs a spec function' % m)
    if m == 'rstrip' and args and const_str(args[0].t) == '/' and 'rstrip_slash' in ex.reg.specfuns:
        sf = ex.reg.specfuns['rstrip_slash']
        for ax in sf.unfold(o.t):
            st.assume(ax)
        return ex.val(VStr(sf.apply(o.t), o.kind), st)
    if m == 'split':
        return str_split(ex, o, args, kwargs, st)
    if m == 'partition' and len(args) == 1:
        # s.partition(sep): exact, with indexof (first occurrence)
        sep = args[0]
        idx = z3.IndexOf(o.t, sep.t, 0)
        et = o.kind if o.kind != 'mv' else 'bytes'

        def found(s2):
            return ex.val(VTuple([VStr(z3.SubString(o.t, 0, idx), et), VStr(sep.t, et),
                                  VStr(z3.SubString(o.t, idx + z3.Length(sep.t), z3.Length(o.t) - idx - z3.Length(sep.t)), et)]), s2)
        return ex.branch(idx >= 0, st, found,
                         lambda s2: ex.val(VTuple([VStr(o.t, et), VStr(z3.StringVal(''), et), VStr(z3.StringVal(''), et)]), s2))
    if m == 'join':
        return str_join(ex, o, args[0], st)
    if m == 'encode':
        return str_encode(ex, o, st)
    if m == 'decode':
        return str_decode(ex, o, args, kwargs, st)
    if m == 'format':
        if m + '_' + (const_str(o.t) or '?') in ex.reg.externs:
            return ex.reg.externs[m + '_' + const_str(o.t)](ex, st, args, kwargs, fr)
        return ex.val(VStr(z3.String(fresh_name('format')), o.kind), st)
    raise Unsupported('string method %s at %s:%d' % (m, fr.relpath, n.lineno))


WS_BYTES = ' \t\n\r\x0b\x0c'


def str_strip(ex, o, m, chars, st):
    """s.strip(chars) for a literal character set, exactly: s == pre + r + post with pre/post made
    of set characters only and r neither starting nor ending with one (the unique such split)."""
    if not chars:
        return ex.val(o, st)
    cs = z3.Union(*[z3.Re(z3.StringVal(c)) for c in chars]) if len(chars) > 1 else z3.Re(z3.StringVal(chars))
    pre = z3.String(fresh_name('strip.pre'))
    post = z3.String(fresh_name('strip.post'))
    r = z3.String(fresh_name('strip.res'))
    st.assume(o.t == z3.Concat(pre, r, post))
    st.assume(z3.InRe(pre, z3.Star(cs)) if m != 'rstrip' else pre == z3.StringVal(''))
    st.assume(z3.InRe(post, z3.Star(cs)) if m != 'lstrip' else post == z3.StringVal(''))
    first = z3.SubString(r, 0, 1)
    last = z3.SubString(r, z3.Length(r) - 1, 1)
    if m != 'rstrip':
        st.assume(z3.Or(z3.Length(r) == 0, z3.Not(z3.InRe(first, cs))))
    if m != 'lstrip':
        st.assume(z3.Or(z3.Length(r) == 0, z3.Not(z3.InRe(last, cs))))
    return ex.val(VStr(r, o.kind), st)


def str_encode(ex, o, st):
    # str -> bytes (utf-8): identity on ASCII; otherwise an uninterpreted image
    if 'utf8enc' in ex.reg.specfuns:
        sf = ex.reg.specfuns['utf8enc']
        for ax in (sf.unfold(o.t) if sf.unfold else []):
            st.assume(ax)
        return ex.val(VStr(sf.apply(o.t), 'bytes'), st)
    raise Unsupported('str.encode needs spec function utf8enc')


def str_decode(ex, o, args, kwargs, st):
    if 'utf8dec' in ex.reg.specfuns:
        sf = ex.reg.specfuns['utf8dec']
        ok = ex.reg.specfuns['utf8_ok']
        for f in (sf, ok):
            for ax in (f.unfold(o.t) if f.unfold else []):
                st.assume(ax)
        errors = kwargs.get('errors') or (args[1] if len(args) > 1 else None)
        if errors is not None and const_str(errors.t) == 'ignore':
            return ex.val(VStr(z3.String(fresh_name('decoded')), 'str'), st)
        return ex.branch(ok.apply(o.t), st, lambda s: ex.val(VStr(sf.apply(o.t), 'str'), s),
                         lambda s: ex.exc(UnicodeDecodeError, s))
    raise Unsupported('bytes.decode needs spec functions utf8dec/utf8_ok')


def str_split(ex, o, args, kwargs, st):
    """s.split(sep, maxsplit) with a constant small maxsplit: exact encoding with indexof.
    s.split() / unbounded splits go through registered spec functions."""
    if not args:
        if 'wsplit' in ex.reg.externs:
            return ex.reg.externs['wsplit'](ex, st, [o], kwargs, None)
        raise Unsupported('split() without separator needs extern model wsplit')
    sep = args[0]
    if len(args) < 2:
        if 'split_all' in ex.reg.externs:
            return ex.reg.externs['split_all'](ex, st, [o, sep], kwargs, None)
        raise Unsupported('unbounded split(sep) needs extern model split_all')
    k = const_int(args[1].t)
    if k is None or k > 3:
        raise Unsupported('split maxsplit must be a small constant')
    # iterative: at most k cuts
    results = []

    def go(rest, parts, cuts, s):
        if cuts == k:
            return finish(parts + [rest], s)
        idx = z3.IndexOf(rest, sep.t, 0)

        def found(s2):
            head = z3.SubString(rest, 0, idx)
            tail = z3.SubString(rest, idx + z3.Length(sep.t), z3.Length(rest) - idx - z3.Length(sep.t))
            return go(tail, parts + [head], cuts + 1, s2)
        return ex.branch(idx >= 0, s, found, lambda s2: finish(parts + [rest], s2))

    def finish(parts, s):
        et = o.kind if o.kind != 'mv' else 'bytes'
        t = z3.Unit(parts[0])
        for p in parts[1:]:
            t = z3.Concat(t, z3.Unit(p))
        lst = s.alloc(HList(et, t))
        s.heap[lst.ref].items = [VStr(p, et) for p in parts]    # concrete-length view
        return ex.val(lst, s)
    return go(o.t, [], 0, st)


def str_join(ex, sep, lst, st):
    if isinstance(lst, VRef) and getattr(st.heap[lst.ref], 'items', None) is not None:
        items = st.heap[lst.ref].items
        t = None
        for it in items:
            t = it.t if t is None else z3.Concat(t, sep.t, it.t)
        return ex.val(VStr(t if t is not None else z3.StringVal(''), sep.kind), st)
    if 'join' in ex.reg.specfuns:
        s, et = as_seq(lst, st)
        sf = ex.reg.specfuns['join']
        for ax in (sf.unfold(sep.t, s) if sf.unfold else []):
            st.assume(ax)
        return ex.val(VStr(sf.apply(sep.t, s), sep.kind), st)
    raise Unsupported('join over a symbolic list needs spec function join')


# ------------------------------------------------------------------ container methods (HList / HDict)

def list_method(ex, ref, m, args, kwargs, st, fr):
    h = st.heap[ref.ref]
    if m == 'append':
        v = args[0]
        if isinstance(v, VOpt):
            return ex.branch(v.isnone, st, lambda s: ex.unsupported_path(s, 'None appended to a list'),
                             lambda s: list_method(ex, ref, m, [v.val] + args[1:], kwargs, s, fr))
        if isinstance(v, VRef) or isinstance(v, VTuple):
            raise Unsupported('list of non-primitive values')
        if h.seq is None:
            h.etype = type_of(v)
            h.seq = z3.Unit(term_of(v))
            h.items = [v]
        else:
            h.seq = z3.Concat(h.seq, z3.Unit(term_of(v)))
            if getattr(h, 'items', None) is not None:
                h.items = h.items + [v]
        return ex.val(NONE, st)
    if m == 'extend':
        s, et = as_seq(args[0], st) if not (isinstance(args[0], VRef) and st.heap[args[0].ref].seq is None) else (None, None)
        if s is not None:
            if h.seq is None:
                h.etype, h.seq = et, s
            else:
                h.seq = z3.Concat(h.seq, s)
            h.items = None
        return ex.val(NONE, st)
    if m == 'clear':
        h.seq = None if h.etype is None else z3.Empty(z3.SeqSort(sort_of(h.etype)))
        h.items = []
        return ex.val(NONE, st)
    if m == 'pop':
        if h.seq is None:
            return ex.exc(IndexError, st)
        n = z3.Length(h.seq)
        if args:
            idx = norm_index(args[0].t, n)
        else:
            idx = n - 1

        def ok(s):
            h2 = s.heap[ref.ref]
            v = wrap(h2.seq[idx], h2.etype)
            h2.seq = z3.Concat(z3.SubSeq(h2.seq, 0, idx), z3.SubSeq(h2.seq, idx + 1, n - idx - 1))
            h2.items = None
            return ex.val(v, s)
        return ex.branch(z3.And(idx >= 0, idx < n), st, ok, lambda s: ex.exc(IndexError, s))
    if m == 'insert':
        v = args[1]
        if h.seq is None:
            h.etype, h.seq = type_of(v), z3.Unit(term_of(v))
            return ex.val(NONE, st)
        n = z3.Length(h.seq)
        idx = clamp_index(args[0].t, n)
        h.seq = z3.Concat(z3.SubSeq(h.seq, 0, idx), z3.Unit(term_of(v)), z3.SubSeq(h.seq, idx, n - idx))
        h.items = None
        return ex.val(NONE, st)
    if m == 'copy':
        return ex.val(st.alloc(HList(h.etype, h.seq)), st)
    if m == 'add':       # set.add on the list model of a set: append unless present
        v = args[0]
        if h.seq is None:
            return list_method(ex, ref, 'append', args, kwargs, st, fr)
        return ex.branch(z3.Contains(h.seq, z3.Unit(term_of(v))), st, lambda s: ex.val(NONE, s),
                         lambda s: list_method(ex, ref, 'append', args, kwargs, s, fr))
    if m == 'remove':
        v = args[0]
        if h.seq is None:
            return ex.exc(KeyError, st)

        def present(s):
            h2 = s.heap[ref.ref]
            h2.seq = ex.seq_remove(h2.seq, term_of(v), s)
            h2.items = None
            return ex.val(NONE, s)
        return ex.branch(z3.Contains(h.seq, z3.Unit(term_of(v))), st, present, lambda s: ex.exc(KeyError, s))
    raise Unsupported('list method %s' % m)


def dict_method(ex, ref, m, args, kwargs, st, fr):
    h = st.heap[ref.ref]
    if m in ('items', 'keys', 'values'):
        return ex.val(VPy(('dictview', ref, m)), st)
    if m == 'get':
        if h.ktype is None:
            return ex.val(args[1] if len(args) > 1 else NONE, st)
        has = dict_has(h, args[0])
        dflt = args[1] if len(args) > 1 else NONE
        return ex.branch(has, st, lambda s: ex.val(dict_get(s.heap[ref.ref], args[0]), s),
                         lambda s: ex.val(dflt, s))
    if m == 'clear':
        if h.ktype is not None:
            h.set_empty()
        return ex.val(NONE, st)
    if m == 'pop':
        if h.ktype is None:
            return ex.val(args[1], st) if len(args) > 1 else ex.exc(KeyError, st)
        has = dict_has(h, args[0])

        def present(s):
            h2 = s.heap[ref.ref]
            val = dict_get(h2, args[0])
            before = h2.keys
            h2.keys = ex.seq_remove(h2.keys, term_of(args[0]), s)
            s.assume(memof(h2.keys) == z3.Store(memof(before), term_of(args[0]), z3.BoolVal(False)))
            return ex.val(val, s)
        return ex.branch(has, st, present, lambda s: (ex.val(args[1], s) if len(args) > 1 else ex.exc(KeyError, s)))
    raise Unsupported('dict method %s' % m)


# ------------------------------------------------------------------ repo functions: contract or inline

def func_node(ex, fn):
    """real function object -> (module, relpath, ast node, owner class or None)"""
    fn = inspect.unwrap(fn)
    if isinstance(fn, (staticmethod, classmethod)):
        fn = fn.__func__
    mod = inspect.getmodule(fn)
    rel = relpath_of_module(mod)
    q = fn.__qualname__
    node = ex.src.find(rel, q)
    return mod, rel, node


def call_method_resolved(ex, owner, meth, fn, recv, args, kwargs, st, fr):
    """Method `meth` defined in class `owner`, receiver `recv`."""
    q = '%s.%s' % (owner.__name__, meth)
    if q not in ex.reg.contracts and isinstance(recv, VRef):
        alt = '%s.%s' % (st.heap[recv.ref].cls, meth)       # contract keyed by the sidecar class name
        if alt in ex.reg.contracts:
            q = alt
    raw = fn
    if isinstance(raw, staticmethod):
        return call_function(ex, raw.__func__, args, kwargs, st, fr, what=q, owner=owner)
    if isinstance(raw, classmethod):
        return call_function(ex, raw.__func__, [VPy(st.heap[recv.ref].pycls)] + args, kwargs, st, fr, what=q, owner=owner)
    if isinstance(raw, property):
        raw = raw.fget
    return call_function(ex, raw, [recv] + args, kwargs, st, fr, what=q, owner=owner)


def bind_params(ex, node, fnobj, args, kwargs, st, fr, mod):
    """Python argument binding (positional, keyword, defaults)."""
    a = node.args
    if a.vararg or a.kwarg:
        raise Unsupported('callee %s takes *args/**kwargs' % node.name)
    names = [x.arg for x in a.posonlyargs + a.args]
    env = {}
    if len(args) > len(names):
        raise Unsupported('too many positional args for %s' % node.name)
    for nm, v in zip(names, args):
        env[nm] = v
    for k, v in kwargs.items():
        if k in env:
            raise Unsupported('duplicate argument %s' % k)
        env[k] = v
    # defaults
    defaults = a.defaults
    dnames = names[len(names) - len(defaults):] if defaults else []
    dfr = Frame(mod, None, node.name, None, fr.relpath)
    for nm, d in zip(dnames, defaults):
        if nm not in env:
            k, v, _ = ex.eval(d, st.fork(), dfr)[0]
            env[nm] = v
    for x, d in zip(a.kwonlyargs, a.kw_defaults):
        if x.arg not in env and d is not None:
            k, v, _ = ex.eval(d, st.fork(), dfr)[0]
            env[x.arg] = v
    for nm in names + [x.arg for x in a.kwonlyargs]:
        if nm not in env:
            raise Unsupported('missing argument %s for %s' % (nm, node.name))
    return env


def call_function(ex, fnobj, args, kwargs, st, fr, what=None, owner=None):
    fnobj = inspect.unwrap(fnobj)
    q = what or fnobj.__qualname__
    # most specific contract: 'Owner.meth', then module-level name
    c = ex.reg.contracts.get(q)
    if c is None and owner is None:
        c = ex.reg.contracts.get(fnobj.__name__)
    rootc = getattr(getattr(fr, 'root', fr), 'contract', None)
    if c is not None and rootc is not None and q in getattr(rootc, 'callee_overrides', {}):
        c = rootc.callee_overrides[q]      # known-finding carve-out: narrowed callee behaviour
    mod, rel, node = func_node(ex, fnobj)
    if c is not None and not (fr.contract is c):
        return call_contract(ex, c, node, mod, fnobj, args, kwargs, st, fr)
    if q in ex.reg.no_inline:
        raise Unsupported('%s needs a contract (marked no-inline)' % q)
    if fr.depth >= MAX_INLINE_DEPTH:
        raise Unsupported('inline depth exceeded at %s' % q)
    ex.inlined[q] = ex.src.hash_of(rel, node)
    env = bind_params(ex, node, fnobj, args, kwargs, st, fr, mod)
    # coerce argument list values
    saved_env = st.env
    st.env = env
    nfr = Frame(mod, owner, q, node, rel, contract=None, depth=fr.depth + 1)
    nfr.root = getattr(fr, 'root', fr)
    outs = ex.exec_block(node.body, st, nfr)
    ex.cur = fr
    res = []
    for k, v, s in outs:
        s.env = dict(saved_env) if s is not st else saved_env
        if k == 'next':
            res.append(('val', NONE, s))
        elif k == 'ret':
            res.append(('val', v, s))
        elif k == 'exc':
            res.append((k, v, s))
        else:
            raise Unsupported('break/continue escaped function %s' % q)
    # forks copied env dicts: restore caller env for every outcome state
    for k, v, s in res:
        s.env = dict(saved_env)
    return res


def construct(ex, cls, args, kwargs, st, fr):
    """Instantiate a repository class: allocate the object and run the real __init__ chain."""
    name = cls.__name__
    if name in ex.reg.contracts and False:
        pass
    ent = ex.reg.classes.get(name)
    if ent is None:
        raise Unsupported('constructing %s: no sidecar field table' % name)
    h = HObj(name, {}, cls)
    ref = st.alloc(h)
    for f, t in ent.get('ghost', {}).items():
        h.fields[f] = ex.fresh(t, 'new.%s.%s' % (name, f), st)
    for f, dv in ent.get('ghost_init', {}).items():
        h.fields[f] = from_py(dv)
    init = None
    for k in cls.__mro__:
        if '__init__' in k.__dict__ and k is not object:
            init = k
            break
    if init is None:
        return ex.val(ref, st)
    outs = call_function(ex, init.__dict__['__init__'], [ref] + args, kwargs, st, fr,
                         what='%s.__init__' % init.__name__, owner=init)
    return [(('val', ref, s) if k == 'val' else (k, v, s)) for k, v, s in outs]


# ------------------------------------------------------------------ calls through contracts

def call_contract_named(ex, q, recv, args, kwargs, st, fr):
    c = ex.reg.contracts.get(q)
    if c is None:
        raise Unsupported('no contract for %s' % q)
    return call_contract(ex, c, None, None, None, ([recv] if recv is not None else []) + args, kwargs, st, fr)


def call_contract(ex, c, node, mod, fnobj, args, kwargs, st, fr):
    ex.used_contracts.add(c.qualname)
    if node is not None and not (node.args.vararg or node.args.kwarg):
        env = bind_params(ex, node, fnobj, args, kwargs, st, fr, mod)
    else:
        names = list(c.params.keys())
        env = {}
        for nm, v in zip((['self'] if c.self_cls else []) + names, args):
            env[nm] = v
        env.update(kwargs)
    # a non-Optional parameter given an Optional value: call-site obligation that it is not None
    for pn, pt in c.params.items():
        v = env.get(pn)
        if isinstance(v, VOpt) and not (isinstance(pt, tuple) and pt[0] == 'opt'):
            st.obls.append(('call:%s.arg-%s-not-none' % (c.qualname, pn), list(st.pc), z3.Not(v.isnone),
                            {'kind': 'call-pre', 'callee': c.qualname}))
            st.assume(z3.Not(v.isnone))
            env[pn] = v.val
    for gname, gtype in c.ghost_init.items():
        if gname not in st.ghost:
            st.ghost[gname] = ex.fresh(gtype, gname, st)
    pre_st = st.fork()
    pre_env = SpecEnv(pre_st, dict(env))
    root = getattr(fr, 'root', fr)
    # call-site preconditions
    for nm, text in c.requires + c.inv:
        goal = ex.spec.bool(text, SpecEnv(st, dict(env)))
        st.obls.append(('call:%s.%s' % (c.qualname, nm), list(st.pc), goal,
                        {'kind': 'call-pre', 'callee': c.qualname, 'line': getattr(ex, 'cur_line', 0)}))
    outs = []
    # normal exit
    s1 = st.fork()
    s1.trace.append('ok:' + c.qualname)
    havoc(ex, c.modifies, env, s1, c)
    for gname, gtype in c.ghost_init.items():
        s1.ghost[gname] = ex.fresh(gtype, gname, s1)      # ghost state the callee advances
    res = ex.fresh(c.result, 'ret.' + c.qualname, s1) if c.result not in (None, 'none') else NONE
    alias = getattr(c, 'result_alias', None)
    if alias:       # the callee returns its argument (or None when the declared result is Optional)
        res = VOpt(z3.Bool(fresh_name('ret.%s?none' % c.qualname)), env[alias]) \
            if isinstance(c.result, tuple) and c.result[0] == 'opt' else env[alias]
    senv = SpecEnv(s1, dict(env), pre_env, res)
    for nm, text in c.ensures + c.inv:
        s1.assume(ex.spec.bool(text, senv))
    for ax in ex.spec.side:
        s1.assume(ax)
    ex.spec.side = []
    s1.notes.append(('env' if c.assumed else 'call', c.qualname, 'ret', res))
    outs.append(('val', res, s1))
    for exname, posts in c.raises.items():
        ecls = resolve_exc(exname)
        s2 = st.fork()
        s2.trace.append('!' + exname + '@' + c.qualname)
        havoc(ex, c.raise_modifies if c.raise_modifies is not None else [], env, s2, c)
        for gname, gtype in c.ghost_init.items():
            s2.ghost[gname] = ex.fresh(gtype, gname, s2)
        e = VExc(ecls)
        s2.notes.append(('env' if c.assumed else 'call', c.qualname, 'raise', exname))
        senv = SpecEnv(s2, dict(env), pre_env, None, e)
        for nm, text in posts + c.inv:
            s2.assume(ex.spec.bool(text, senv))
        outs.append(('exc', e, s2))
    return outs


def resolve_exc(name):
    import builtins as _b
    import ssl
    import socket
    import subprocess
    import queue
    if hasattr(_b, name):
        return getattr(_b, name)
    for m in (ssl, socket, subprocess, queue):
        if '.' in name and name.split('.')[0] == m.__name__:
            return getattr(m, name.split('.')[1])
    if '.' in name:
        import importlib
        mod, _, cl = name.rpartition('.')
        return getattr(importlib.import_module(mod), cl)
    raise Unsupported('unknown exception class %s' % name)


def havoc(ex, modifies, env, st, c):
    """Replace every location in `modifies` (access paths like 'self.buffer') by a fresh value."""
    if modifies is None:
        raise Unsupported('contract %s needs a modifies clause' % c.qualname)
    for path in modifies:
        parts = path.split('.')
        v = env.get(parts[0])
        if v is None:
            raise SpecError('modifies: unknown root %s' % parts[0])
        for p in parts[1:-1]:
            v = deref_field(v, p, st)
        if len(parts) == 1:
            # a container passed by reference: its content is replaced in place
            if isinstance(v, VOpt):
                v = v.val
            if isinstance(v, VRef) and isinstance(st.heap[v.ref], HDict):
                h0 = st.heap[v.ref]
                if h0.ktype is not None:
                    st.heap[v.ref] = ex.fresh_dict(h0.ktype, h0.vtype, path, st)
                continue
            if isinstance(v, VRef) and isinstance(st.heap[v.ref], HList):
                h0 = st.heap[v.ref]
                if h0.etype is not None:
                    st.heap[v.ref] = HList(h0.etype, z3.Const(fresh_name(path), z3.SeqSort(sort_of(h0.etype))))
                continue
            raise SpecError('modifies of a local makes no sense: %s' % path)
        if isinstance(v, VOpt):
            v = v.val
        h = st.heap[v.ref]
        cur = h.fields.get(parts[-1])
        ent = ex.reg.classes.get(h.cls, {})
        decl = dict(ent.get('fields', {}))
        decl.update(ent.get('ghost', {}))
        if parts[-1] in decl:
            h.fields[parts[-1]] = ex.fresh(decl[parts[-1]], path, st)
        else:
            h.fields[parts[-1]] = havoc_val(ex, cur, path, st)


def deref_field(v, p, st):
    if isinstance(v, VOpt):
        v = v.val
    return st.heap[v.ref].fields[p]


def havoc_val(ex, cur, path, st):
    if isinstance(cur, VRef):
        h = st.heap[cur.ref]
        if isinstance(h, HBytes):
            return st.alloc(HBytes(z3.String(fresh_name(path))))
        if isinstance(h, HList):
            return st.alloc(HList(h.etype, z3.Const(fresh_name(path), z3.SeqSort(sort_of(h.etype)))))
        if isinstance(h, HDict):
            return st.alloc(ex.fresh_dict(h.ktype, h.vtype, path, st))
        if isinstance(h, HObj):
            return ex.fresh_obj(h.cls, path, st)
        raise Unsupported('havoc of object field %s' % path)
    if isinstance(cur, VOpt):
        return VOpt(z3.Bool(fresh_name(path + '?none')), havoc_val(ex, cur.val, path, st))
    if isinstance(cur, (VInt, VBool, VStr, VSeq, VOpaque)):
        return wrap(fresh_term(type_of(cur), path), type_of(cur))
    if isinstance(cur, VNone):
        raise Unsupported('havoc of a field currently None without declared type: %s' % path)
    raise Unsupported('havoc of %r' % (cur,))
