"""Symbolic values, heap objects and the primitive (z3-level) operations that
both the code executor and the spec evaluator use.  Python semantics encoded
here: floor division / modulo, slice clamping, negative indices, truthiness.
bytes / str / memoryview are all z3 Strings (code points <= 255 for bytes);
A-VIEW: views are immutable values.
"""
import z3

String = z3.StringSort()
Int = z3.IntSort()
Bool = z3.BoolSort()


class Val(object):
    __slots__ = ()


class VInt(Val):
    __slots__ = ('t',)

    def __init__(self, t):
        self.t = z3.IntVal(t) if isinstance(t, int) else t

    def __repr__(self):
        return 'VInt(%s)' % self.t


class VBool(Val):
    __slots__ = ('t',)

    def __init__(self, t):
        self.t = z3.BoolVal(t) if isinstance(t, bool) else t

    def __repr__(self):
        return 'VBool(%s)' % self.t


class VStr(Val):
    """bytes ('bytes'), str ('str') or memoryview ('mv')."""
    __slots__ = ('t', 'kind')

    def __init__(self, t, kind='bytes'):
        if isinstance(t, (bytes, bytearray)):
            t = z3.StringVal(bytes(t).decode('latin-1'))
        elif isinstance(t, str):
            t = z3.StringVal(t)
        self.t = t
        self.kind = kind

    def __repr__(self):
        return 'VStr[%s](%s)' % (self.kind, self.t)


class VNone(Val):
    __slots__ = ()

    def __repr__(self):
        return 'VNone'


NONE = VNone()


class VOpt(Val):
    """Optional[T]: isnone is a z3 Bool, val the value when not None."""
    __slots__ = ('isnone', 'val')

    def __init__(self, isnone, val):
        self.isnone = isnone
        self.val = val

    def __repr__(self):
        return 'VOpt(%s, %r)' % (self.isnone, self.val)


class VTuple(Val):
    __slots__ = ('items',)

    def __init__(self, items):
        self.items = list(items)

    def __repr__(self):
        return 'VTuple(%r)' % (self.items,)


class VSeq(Val):
    """An immutable sequence value (spec level, or a list literal not yet on the heap)."""
    __slots__ = ('t', 'etype')

    def __init__(self, t, etype):
        self.t = t
        self.etype = etype

    def __repr__(self):
        return 'VSeq(%s)' % self.t


class VRef(Val):
    __slots__ = ('ref',)

    def __init__(self, ref):
        self.ref = ref

    def __repr__(self):
        return 'VRef(%s)' % self.ref


class VPy(Val):
    """A concrete Python object (module, class, function, enum-like constant)."""
    __slots__ = ('obj',)

    def __init__(self, obj):
        self.obj = obj

    def __repr__(self):
        return 'VPy(%r)' % (self.obj,)


class VExc(Val):
    __slots__ = ('cls', 'fields', 'msg')

    def __init__(self, cls, fields=None, msg=None):
        self.cls = cls
        self.fields = fields or {}
        self.msg = msg

    def __repr__(self):
        return 'VExc(%s)' % self.cls.__name__


class VOpaque(Val):
    """An object known only through contracts: class name + z3 Int identity."""
    __slots__ = ('cls', 'ident')

    def __init__(self, cls, ident):
        self.cls = cls
        self.ident = ident

    def __repr__(self):
        return 'VOpaque(%s,%s)' % (self.cls, self.ident)


# ----------------------------------------------------------------- heap objects

class HObj(object):
    def __init__(self, cls, fields=None, pycls=None):
        self.cls = cls
        self.fields = dict(fields or {})
        self.pycls = pycls

    def copy(self):
        return HObj(self.cls, self.fields, self.pycls)


class HList(object):
    def __init__(self, etype, seq, items=None):
        self.etype = etype
        self.seq = seq
        self.items = items      # concrete-length view [Val...] when the length is static, else None

    def copy(self):
        return HList(self.etype, self.seq, self.items)


class HBytes(object):
    """bytearray: a mutable byte string"""
    def __init__(self, t):
        self.t = t

    def copy(self):
        return HBytes(self.t)


class HDict(object):
    """Ordered dict: keys (Seq K, distinct, insertion order) + one Array per value component
    + a membership Array."""
    def __init__(self, ktype, vtype, keys, maps, mem=None):
        self.ktype = ktype
        self.vtype = vtype
        self.keys = keys
        self.maps = list(maps)

    @property
    def mem(self):
        """membership Array K -> Bool of the current key sequence (see memof)"""
        return None if self.ktype is None else memof(self.keys)

    def copy(self):
        return HDict(self.ktype, self.vtype, self.keys, self.maps)

    def set_empty(self):
        self.keys = z3.Empty(z3.SeqSort(sort_of(self.ktype)))


def memof(keys):
    """`k in d` is Select(memof(keys), k): memof maps a key sequence to its membership array.  It is an
    uninterpreted function (equal key sequences have equal membership by congruence) whose defining
    facts are added as *instances* for the terms that occur in a query (verify.mem_axioms):
        memof(empty) = K(false);   memof(s ++ [k]) = store(memof(s), k, true);
        memof(s)[k]  ==>  0 <= idxof(s, k) < len(s)  and  s[idxof(s, k)] = k;     (0 <= i < len(s)  ==>  memof(s)[s[i]]  at loops)
    This keeps seq.contains over (Seq String), which both solvers handle badly, out of the queries."""
    ks = keys.sort()
    es = ks.basis()
    f = z3.Function('memof_%s' % es.name(), ks, z3.ArraySort(es, z3.BoolSort()))
    return f(keys)


def idxof(keys, k):
    ks = keys.sort()
    f = z3.Function('idxof_%s' % ks.basis().name(), ks, ks.basis(), z3.IntSort())
    return f(keys, k)


# ----------------------------------------------------------------- types

def is_strt(t):
    return t in ('bytes', 'str', 'mv')


def sort_of(t):
    if t == 'int':
        return Int
    if t == 'bool':
        return Bool
    if is_strt(t):
        return String
    if isinstance(t, tuple) and t[0] in ('obj', 'opaque'):
        return Int
    if isinstance(t, tuple) and t[0] == 'list':
        return z3.SeqSort(sort_of(t[1]))
    raise TypeError('no z3 sort for type %r' % (t,))


def wrap(term, t):
    """z3 term of type descriptor t -> Val"""
    if t == 'int':
        return VInt(term)
    if t == 'bool':
        return VBool(term)
    if is_strt(t):
        return VStr(term, t)
    if isinstance(t, tuple) and t[0] == 'opaque':
        return VOpaque(t[1], term)
    if isinstance(t, tuple) and t[0] == 'list':
        return VSeq(term, t[1])
    raise TypeError('cannot wrap %r' % (t,))


def term_of(v):
    if isinstance(v, (VInt, VBool, VStr, VSeq)):
        return v.t
    if isinstance(v, VOpaque):
        return v.ident
    raise TypeError('no term for %r' % (v,))


def type_of(v):
    if isinstance(v, VInt):
        return 'int'
    if isinstance(v, VBool):
        return 'bool'
    if isinstance(v, VStr):
        return v.kind
    if isinstance(v, VNone):
        return 'none'
    if isinstance(v, VSeq):
        return ('list', v.etype)
    if isinstance(v, VOpaque):
        return ('opaque', v.cls)
    if isinstance(v, VTuple):
        return ('tuple',) + tuple(type_of(i) for i in v.items)
    if isinstance(v, VOpt):
        return ('opt', type_of(v.val))
    return ('any',)


# ----------------------------------------------------------------- arithmetic

def py_floordiv(a, b):
    # Python floor division on z3 Ints (z3 div is Euclidean for ints)
    q = a / b
    # SMT-LIB div/mod are Euclidean: a = b*q + r, 0 <= r < |b|.  Python's floor
    # quotient differs exactly when b < 0 and r != 0:  a = b*(q-1) + (r+b).
    r = a % b
    return z3.If(z3.And(b < 0, r != 0), q - 1, q)


def py_mod(a, b):
    r = a % b
    return z3.If(z3.And(b < 0, r != 0), r + b, r)


def zmin(a, b):
    return z3.If(a <= b, a, b)


def zmax(a, b):
    return z3.If(a >= b, a, b)


def clamp_index(i, n):
    """Python slice bound normalisation for step 1."""
    return z3.If(i < 0, zmax(i + n, z3.IntVal(0)), zmin(i, n))


def seq_len(s):
    return z3.Length(s)


def seq_slice(s, lo, hi):
    """s[lo:hi]; lo/hi are z3 Int terms or None."""
    n = z3.Length(s)
    lo_t = z3.IntVal(0) if lo is None else clamp_index(lo, n)
    hi_t = n if hi is None else clamp_index(hi, n)
    ln = zmax(hi_t - lo_t, z3.IntVal(0))
    return z3.SubSeq(s, lo_t, ln)


def str_at_code(s, i):
    """int value of byte i (0 <= i < len assumed)."""
    return z3.StrToCode(z3.SubString(s, i, 1))


def norm_index(i, n):
    return z3.If(i < 0, i + n, i)


def bit_and(a, b, width=16):
    return z3.BV2Int(z3.Int2BV(a, width) & z3.Int2BV(b, width), False)


def bit_or(a, b, width=16):
    return z3.BV2Int(z3.Int2BV(a, width) | z3.Int2BV(b, width), False)


def bit_xor(a, b, width=16):
    return z3.BV2Int(z3.Int2BV(a, width) ^ z3.Int2BV(b, width), False)


def const_int(t):
    """Python int if t is a numeral, else None"""
    t = z3.simplify(t)
    if z3.is_int_value(t):
        return t.as_long()
    return None


def const_bool(t):
    t = z3.simplify(t)
    if z3.is_true(t):
        return True
    if z3.is_false(t):
        return False
    return None


def const_str(t):
    t = z3.simplify(t)
    if z3.is_string_value(t):
        return unescape_z3(t.as_string())
    return None


def unescape_z3(s):
    import re

    def rep(m):
        return chr(int(m.group(1) or m.group(2), 16))
    return re.sub(r'\\u\{([0-9a-fA-F]+)\}|\\u([0-9a-fA-F]{4})', rep, s)
