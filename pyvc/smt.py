"""Solver back end: every query is an SMT-LIB 2 file handed to a solver
*subprocess* with a hard kill (never the in-process z3 API: its timeout was
measured to be ignored on sequence queries).

verdicts: 'unsat' | 'sat' | 'unknown'
"""
import os
import re
import subprocess
import tempfile
import time
import hashlib
from concurrent.futures import ThreadPoolExecutor

import z3

Z3_BIN = os.environ.get('PYVC_Z3', 'z3-new')
Z3_OLD = '/usr/bin/z3'
CVC5_BIN = os.environ.get('PYVC_CVC5', '/usr/bin/cvc5')

WORKDIR = None
_ctr = [0]
import threading as _threading
_ctr_lock = _threading.Lock()


def workdir():
    global WORKDIR
    if WORKDIR is None:
        WORKDIR = tempfile.mkdtemp(prefix='pyvc-')
    return WORKDIR


def cleanup():
    """remove the scratch directory (also registered with atexit: nothing is left under /tmp)"""
    global WORKDIR
    if WORKDIR and os.path.isdir(WORKDIR):
        import shutil
        shutil.rmtree(WORKDIR, ignore_errors=True)
    WORKDIR = None


def to_smt2(assertions, get_values=()):
    """Serialise a list of z3 Bool terms to SMT-LIB 2 text (logic ALL)."""
    s = z3.Solver()
    for a in assertions:
        s.add(a)
    txt = s.to_smt2()
    # z3 prints (check-sat) at the end; add logic for cvc5 and model query.
    txt = txt.replace('(check-sat)\n', '')
    head = '(set-logic ALL)\n'
    tail = '(check-sat)\n'
    if get_values:
        names = ' '.join(get_values)
        tail += '(get-value (%s))\n' % names
    return head + txt + tail


def _run(cmd, timeout):
    t0 = time.time()
    try:
        p = subprocess.run(cmd, stdout=subprocess.PIPE, stderr=subprocess.PIPE,
                           timeout=timeout, text=True)
        out = p.stdout
        err = p.stderr
    except subprocess.TimeoutExpired as e:
        out = (e.stdout or b'').decode() if isinstance(e.stdout, bytes) else (e.stdout or '')
        err = 'hard-timeout'
    dt = time.time() - t0
    first = out.strip().split('\n', 1)[0].strip() if out.strip() else ''
    if first in ('sat', 'unsat'):
        verdict = first
    else:
        verdict = 'unknown'
    return verdict, out, err, dt


def _cmd(sv, path, cpath, budget, want_model):
    if sv == 'z3':
        return [Z3_BIN, '-T:%d' % max(1, int(budget)), 'model.completion=true', path]
    if sv == 'z3old':
        return [Z3_OLD, '-T:%d' % max(1, int(budget)), path]
    cmd = [CVC5_BIN, '--strings-exp', '--tlimit=%d' % int(budget * 1000)]
    if want_model:
        cmd += ['--produce-models']
    return cmd + [cpath]


def _verdict(out):
    first = out.strip().split('\n', 1)[0].strip() if out.strip() else ''
    return first if first in ('sat', 'unsat') else 'unknown'


def solve_text(txt, budget=10.0, want_model=False, tag='q', solvers=('z3', 'cvc5'), confirm_sat=False):
    """Race the solvers (separate OS processes, hard kill at the budget); first decisive answer wins.
    A z3 `sat` on a proof obligation (confirm_sat) only counts when cvc5 agrees: z3 5.1/4.8 were
    measured to answer `sat` with a non-model on nested sequences ((Seq String), seq.nth).

    returns dict(verdict in unsat|sat|sat?|unknown, backend, seconds, outputs{backend: text})
    """
    h = hashlib.sha1(txt.encode()).hexdigest()[:12]
    with _ctr_lock:
        _ctr[0] += 1
        uniq = _ctr[0]
    # unique per call: identical queries of different obligations run concurrently
    base = os.path.join(workdir(), '%s-%s-%d' % (re.sub(r'[^A-Za-z0-9_.-]', '_', tag)[:80], h, uniq))
    path = base + '.smt2'
    cpath = base + '.cvc5.smt2'
    with open(path, 'w') as f:
        f.write(txt)
    if 'cvc5' in solvers:
        # cvc5 1.0 spells the Int<->BV conversions differently from z3 5.x
        with open(cpath, 'w') as f:
            f.write(txt.replace('(_ int_to_bv ', '(_ int2bv ').replace('ubv_to_int', 'bv2nat'))
    res = {'verdict': 'unknown', 'backend': None, 'seconds': 0.0, 'outputs': {}, 'file': path}
    t0 = time.time()
    procs = {}
    for sv in solvers:
        procs[sv] = subprocess.Popen(_cmd(sv, path, cpath, budget, want_model), stdout=subprocess.PIPE,
                                     stderr=subprocess.PIPE, text=True)
    done = {}
    z3sat = None
    deadline = t0 + budget + 5
    try:
        while procs and time.time() < deadline:
            for sv, p in list(procs.items()):
                if p.poll() is None:
                    continue
                out, err = p.communicate()
                del procs[sv]
                v = _verdict(out)
                done[sv] = v
                res['outputs'][sv] = out[-4000:] + ('\n[stderr] ' + err[-300:] if err.strip() else '')
                model = out.split('\n', 1)[1] if '\n' in out else ''
                if v == 'unsat':
                    res.update(verdict='unsat', backend=sv, model_text='')
                    if z3sat is not None:
                        res['backend'] = 'cvc5 (z3 sat overruled)'
                    procs_kill(procs)
                    procs = {}
                    break
                if v == 'sat':
                    if sv.startswith('z3') and confirm_sat and 'cvc5' in solvers:
                        z3sat = model
                        if 'cvc5' in done:      # cvc5 already gave up
                            res.update(verdict='sat?', backend='z3 (unconfirmed)', model_text=model)
                        continue
                    res.update(verdict='sat', backend=sv, model_text=model)
                    procs_kill(procs)
                    procs = {}
                    break
            else:
                if procs:
                    time.sleep(0.01)
                continue
            break
    finally:
        procs_kill(procs)
    if res['verdict'] == 'unknown' and z3sat is not None:
        res.update(verdict='sat?', backend='z3 (unconfirmed)', model_text=z3sat)
    res['seconds'] = time.time() - t0
    for pth in (path, cpath):
        try:
            os.unlink(pth)
        except OSError:
            pass
    return res


def procs_kill(procs):
    for p in procs.values():
        try:
            p.kill()
            p.communicate(timeout=2)
        except Exception:
            pass


def solve_many(jobs, budget=10.0, workers=None, solvers=('z3', 'cvc5')):
    """jobs: list of (tag, smt2_text, want_model, confirm_sat).  Returns list of results in order."""
    workers = workers or max(2, min(16, (os.cpu_count() or 4)) // 2)
    with ThreadPoolExecutor(max_workers=workers) as ex:
        futs = [ex.submit(solve_text, txt, budget if cs else max(3.0, budget / 5.0), wm, tag, solvers, cs)
                for (tag, txt, wm, cs) in jobs]
        return [f.result() for f in futs]


import atexit as _atexit   # noqa: E402
_atexit.register(cleanup)


# ---------------------------------------------------------------- model parsing

_tok = re.compile(r'\(|\)|"(?:[^"]|"")*"|[^\s()]+')


def _parse_sexprs(text):
    toks = _tok.findall(text)
    pos = 0

    def rd():
        nonlocal pos
        t = toks[pos]
        pos += 1
        if t == '(':
            lst = []
            while toks[pos] != ')':
                lst.append(rd())
            pos += 1
            return lst
        return t
    out = []
    while pos < len(toks):
        if toks[pos] == ')':
            pos += 1
            continue
        out.append(rd())
    return out


def _unescape(s):
    s = s[1:-1].replace('""', '"')

    def rep(m):
        return chr(int(m.group(1) or m.group(2), 16))
    return re.sub(r'\\u\{([0-9a-fA-F]+)\}|\\u([0-9a-fA-F]{4})', rep, s)


def sexpr_to_py(e):
    """Best-effort conversion of a model value s-expression to Python."""
    if isinstance(e, str):
        if e.startswith('"'):
            return _unescape(e)
        if e in ('true', 'false'):
            return e == 'true'
        if re.fullmatch(r'-?\d+', e):
            return int(e)
        return e
    if not e:
        return e
    h = e[0]
    if h == '-' and len(e) == 2:
        v = sexpr_to_py(e[1])
        return -v if isinstance(v, int) else e
    if h == 'seq.unit':
        return [sexpr_to_py(e[1])]
    if h == 'seq.++':
        out = []
        for x in e[1:]:
            v = sexpr_to_py(x)
            if isinstance(v, list):
                out.extend(v)
            else:
                return e
        return out
    if h == 'str.++':
        out = ''
        for x in e[1:]:
            v = sexpr_to_py(x)
            if isinstance(v, str):
                out += v
            else:
                return e
        return out
    if h == 'as' and len(e) == 3 and e[1] == 'seq.empty':
        return [] if e[2] != 'String' else ''
    if h == '_' and len(e) == 3 and e[1].lower() == 'char':
        return chr(int(e[2][2:], 16))
    return e


def parse_get_value(model_text):
    """(get-value ...) answer -> {name: python value}"""
    out = {}
    try:
        sx = _parse_sexprs(model_text)
    except Exception:
        return out
    for top in sx:
        if isinstance(top, list):
            for pair in top:
                if isinstance(pair, list) and len(pair) == 2 and isinstance(pair[0], str):
                    out[pair[0]] = sexpr_to_py(pair[1])
    return out
